// Command mutate is a development aid for the sensitivity sweep (DESIGN.md
// section 15): it enumerates conventional syntactic mutants of the library's
// non-test Go sources and writes a chosen one out. It is not part of any
// registered check.
//
//	mutate list <file.go>                 -> one line per mutation site: index, line, operator, description
//	mutate apply <file.go> <index> <out>  -> writes the mutated file to <out>
package main

import (
	"bytes"
	"fmt"
	"go/ast"
	"go/parser"
	"go/printer"
	"go/token"
	"os"
	"strconv"
)

type site struct {
	line int
	op   string
	desc string
	do   func()
}

var swaps = map[token.Token][]token.Token{
	token.LSS:  {token.LEQ},
	token.LEQ:  {token.LSS},
	token.GTR:  {token.GEQ},
	token.GEQ:  {token.GTR},
	token.EQL:  {token.NEQ},
	token.NEQ:  {token.EQL},
	token.LAND: {token.LOR},
	token.LOR:  {token.LAND},
	token.ADD:  {token.SUB},
	token.SUB:  {token.ADD},
}

func collect(fset *token.FileSet, f *ast.File) []site {
	var sites []site
	add := func(pos token.Pos, op, desc string, do func()) {
		sites = append(sites, site{fset.Position(pos).Line, op, desc, do})
	}
	// replace a statement inside its parent list
	var visitStmts func(list []ast.Stmt)
	visitStmts = func(list []ast.Stmt) {
		for i, s := range list {
			i, s := i, s
			switch st := s.(type) {
			case *ast.ExprStmt:
				if _, ok := st.X.(*ast.CallExpr); ok {
					add(s.Pos(), "delstmt", "delete call statement", func() { list[i] = &ast.EmptyStmt{Semicolon: s.Pos()} })
				}
			case *ast.AssignStmt:
				if st.Tok != token.DEFINE {
					add(s.Pos(), "delstmt", "delete assignment", func() { list[i] = &ast.EmptyStmt{Semicolon: s.Pos()} })
				}
			case *ast.IncDecStmt:
				add(s.Pos(), "delstmt", "delete inc/dec", func() { list[i] = &ast.EmptyStmt{Semicolon: s.Pos()} })
			}
		}
	}
	ast.Inspect(f, func(n ast.Node) bool {
		switch x := n.(type) {
		case *ast.GenDecl:
			if x.Tok == token.IMPORT {
				return false
			}
		case *ast.BlockStmt:
			visitStmts(x.List)
		case *ast.CaseClause:
			visitStmts(x.Body)
		case *ast.CommClause:
			visitStmts(x.Body)
		case *ast.BinaryExpr:
			for _, to := range swaps[x.Op] {
				from, to := x.Op, to
				add(x.OpPos, "binop", from.String()+" -> "+to.String(), func() { x.Op = to })
			}
		case *ast.BasicLit:
			if x.Kind == token.INT {
				if v, err := strconv.ParseInt(x.Value, 0, 64); err == nil {
					old := x.Value
					add(x.Pos(), "lit+1", old+" -> "+strconv.FormatInt(v+1, 10), func() { x.Value = strconv.FormatInt(v+1, 10) })
					if v > 0 {
						add(x.Pos(), "lit-1", old+" -> "+strconv.FormatInt(v-1, 10), func() { x.Value = strconv.FormatInt(v-1, 10) })
					}
				}
			}
		case *ast.IfStmt:
			add(x.Cond.Pos(), "ifneg", "negate if condition", func() {
				x.Cond = &ast.UnaryExpr{Op: token.NOT, X: &ast.ParenExpr{X: x.Cond}}
			})
			add(x.Cond.Pos(), "iffalse", "if condition && false", func() {
				x.Cond = &ast.BinaryExpr{X: &ast.ParenExpr{X: x.Cond}, Op: token.LAND, Y: ast.NewIdent("false")}
			})
			add(x.Cond.Pos(), "iftrue", "if condition || true", func() {
				x.Cond = &ast.BinaryExpr{X: &ast.ParenExpr{X: x.Cond}, Op: token.LOR, Y: ast.NewIdent("true")}
			})
		case *ast.ForStmt:
			if x.Cond != nil {
				add(x.Cond.Pos(), "forfalse", "loop condition && false", func() {
					x.Cond = &ast.BinaryExpr{X: &ast.ParenExpr{X: x.Cond}, Op: token.LAND, Y: ast.NewIdent("false")}
				})
			}
		case *ast.BranchStmt:
			if x.Label == nil {
				switch x.Tok {
				case token.BREAK:
					add(x.Pos(), "branch", "break -> continue", func() { x.Tok = token.CONTINUE })
				case token.CONTINUE:
					add(x.Pos(), "branch", "continue -> break", func() { x.Tok = token.BREAK })
				}
			}
		case *ast.ReturnStmt:
			for _, r := range x.Results {
				if id, ok := r.(*ast.Ident); ok && (id.Name == "true" || id.Name == "false") && id.Obj == nil {
					id := id
					old := id.Name
					nw := "true"
					if old == "true" {
						nw = "false"
					}
					add(id.Pos(), "retbool", "return "+old+" -> "+nw, func() { id.Name = nw })
				}
			}
		case *ast.SliceExpr:
			if x.Low != nil {
				add(x.Low.Pos(), "slicelow", "slice low + 1", func() {
					x.Low = &ast.BinaryExpr{X: &ast.ParenExpr{X: x.Low}, Op: token.ADD, Y: &ast.BasicLit{Kind: token.INT, Value: "1"}}
				})
			}
			if x.High != nil {
				add(x.High.Pos(), "slicehigh", "slice high - 1", func() {
					x.High = &ast.BinaryExpr{X: &ast.ParenExpr{X: x.High}, Op: token.SUB, Y: &ast.BasicLit{Kind: token.INT, Value: "1"}}
				})
			}
		case *ast.UnaryExpr:
			if x.Op == token.NOT {
				add(x.Pos(), "dropnot", "drop !", func() { x.Op = token.ADD })
			}
		}
		return true
	})
	return sites
}

func main() {
	if len(os.Args) < 3 {
		fmt.Fprintln(os.Stderr, "usage: mutate list <file.go> | mutate apply <file.go> <index> <out>")
		os.Exit(2)
	}
	fset := token.NewFileSet()
	f, err := parser.ParseFile(fset, os.Args[2], nil, parser.ParseComments)
	if err != nil {
		fmt.Fprintln(os.Stderr, err)
		os.Exit(2)
	}
	sites := collect(fset, f)
	switch os.Args[1] {
	case "list":
		for i, s := range sites {
			fmt.Printf("%d\t%d\t%s\t%s\n", i, s.line, s.op, s.desc)
		}
	case "apply":
		idx, err := strconv.Atoi(os.Args[3])
		if err != nil || idx < 0 || idx >= len(sites) {
			fmt.Fprintln(os.Stderr, "bad index")
			os.Exit(2)
		}
		s := sites[idx]
		if s.op == "dropnot" {
			// "+x" on a bool does not compile; rewrite through the parent instead
			dropNot(f, fset, s.line, idx, sites)
		} else {
			s.do()
		}
		var buf bytes.Buffer
		if err := printer.Fprint(&buf, fset, f); err != nil {
			fmt.Fprintln(os.Stderr, err)
			os.Exit(2)
		}
		if err := os.WriteFile(os.Args[4], buf.Bytes(), 0o644); err != nil {
			fmt.Fprintln(os.Stderr, err)
			os.Exit(2)
		}
		fmt.Printf("%d\t%s\t%s\n", s.line, s.op, s.desc)
	}
}

// dropNot replaces the idx-th site's "!x" by "(x)"; done by a second walk that
// counts "!" sites in the same order as collect.
func dropNot(f *ast.File, fset *token.FileSet, line, idx int, sites []site) {
	// number of dropnot sites before idx
	k := 0
	for i := 0; i < idx; i++ {
		if sites[i].op == "dropnot" {
			k++
		}
	}
	n := 0
	var target *ast.UnaryExpr
	ast.Inspect(f, func(nd ast.Node) bool {
		if g, ok := nd.(*ast.GenDecl); ok && g.Tok == token.IMPORT {
			return false
		}
		if u, ok := nd.(*ast.UnaryExpr); ok && u.Op == token.NOT {
			if n == k {
				target = u
			}
			n++
		}
		return true
	})
	if target == nil {
		return
	}
	// !x -> !!x has the same effect as dropping the negation and always compiles
	target.X = &ast.UnaryExpr{Op: token.NOT, X: &ast.ParenExpr{X: target.X}}
}
