// Command dump prints the parse tree, HTML and formatted output of an input
// (development aid for triage).
package main

import (
	"bytes"
	"fmt"
	"io"
	"os"
	"strconv"
	"strings"

	"verif/internal/tree"
	cm "zombiezen.com/go/commonmark"
	"zombiezen.com/go/commonmark/format"
)

func main() {
	var in []byte
	if len(os.Args) > 1 {
		s := os.Args[1]
		if len(s) >= 2 && s[0] == '"' {
			if u, err := strconv.Unquote(s); err == nil {
				s = u
			}
		} else {
			s = replaceEsc(s)
		}
		in = []byte(s)
	} else {
		in, _ = io.ReadAll(os.Stdin)
	}
	mainRest(in)
}

func replaceEsc(s string) string {
	return strings.NewReplacer(`\n`, "\n", `\t`, "\t", `\r`, "\r", `\0`, "\x00", `\f`, "\f").Replace(s)
}

func mainRest(in []byte) {
	fmt.Printf("INPUT %q\n", in)
	blocks, refs := cm.Parse(in)
	for _, b := range blocks {
		fmt.Print(tree.DumpRoot(b, 0, 0))
		for _, v := range append(tree.CheckTree(b), tree.CheckGrammar(b)...) {
			fmt.Printf("  !! %s %s\n", v.Prop, v.Msg)
		}
	}
	fmt.Printf("REFS\n%s", tree.DumpRefs(refs))
	var buf bytes.Buffer
	cm.RenderHTML(&buf, blocks, refs)
	fmt.Printf("HTML %q\n", buf.String())
	var f bytes.Buffer
	err := format.Format(&f, blocks)
	fmt.Printf("FMT  %q err=%v\n", f.String(), err)
}
