// Command check is the driver behind ./check: it rebuilds a property's test
// binary from /repo's current working tree, runs the replay tier and the
// generated tier (sharded in the thorough tier), merges the per-process
// statistics into evidence/<id>.json and maps the outcome to the exit status
// contract: 0 held, 1 violation (with VIOLATION lines), 2 inconclusive.
package main

import (
	"bufio"
	"bytes"
	"context"
	"encoding/json"
	"fmt"
	"hash/fnv"
	"os"
	"os/exec"
	"path/filepath"
	"regexp"
	"sort"
	"strconv"
	"strings"
	"sync"
	"time"
)

type propInfo struct {
	ID          string
	Race        bool
	Shards      int           // processes in the thorough tier
	QuickTO     time.Duration // process timeout, quick
	ThoroughTO  time.Duration
	Level       string
	Assumptions []string
	FuzzSecs    int // native fuzz campaign (go test -fuzz FuzzProperty) in the thorough tier, seconds
}

var baseAssume = []string{
	"the Go toolchain, the race detector and pgregory.net/rapid v1.3.0 behave as documented",
	"generated-input search: held on everything explored, which never establishes absence",
}

func props() map[string]*propInfo {
	m := map[string]*propInfo{}
	add := func(p *propInfo) {
		if p.Shards == 0 {
			p.Shards = 16
		}
		if p.QuickTO == 0 {
			p.QuickTO = 15 * time.Minute
		}
		if p.ThoroughTO == 0 {
			p.ThoroughTO = 90 * time.Minute
		}
		if p.Level == "" {
			p.Level = "exploration"
		}
		p.Assumptions = append(append([]string{}, baseAssume...), p.Assumptions...)
		m[p.ID] = p
	}
	add(&propInfo{ID: "C01", FuzzSecs: 60})
	add(&propInfo{ID: "C02", FuzzSecs: 90})
	add(&propInfo{ID: "C03", FuzzSecs: 60})
	add(&propInfo{ID: "C04", FuzzSecs: 120})
	add(&propInfo{ID: "C05", FuzzSecs: 60})
	add(&propInfo{ID: "C06", Assumptions: []string{"the abstract-document model and its expected-HTML function transcribe the CommonMark 0.30 mapping correctly; the serializer only emits spellings whose meaning the spec fixes (rules S1-S7 in DESIGN.md)"}})
	add(&propInfo{ID: "C07", FuzzSecs: 90, Assumptions: []string{"golang.org/x/net/html's tokenizer implements the WHATWG tokenizer (cross-check only; the strict output grammar is hand-written)"}})
	add(&propInfo{ID: "C08", Level: "fault_enumeration"})
	add(&propInfo{ID: "C09", Assumptions: []string{"the reference renderer of C10 reads the tree as documented"}})
	add(&propInfo{ID: "C10", FuzzSecs: 60, Assumptions: []string{"the reference renderer transcribes the documented node-to-HTML mapping"}})
	add(&propInfo{ID: "C11", Assumptions: []string{"the reference process-emphasis procedure transcribes the CommonMark 0.30 appendix algorithm without its openers_bottom optimisation"}})
	add(&propInfo{ID: "C12", Assumptions: []string{"golang.org/x/text/cases.Fold implements Unicode full case folding"}})
	add(&propInfo{ID: "C13", FuzzSecs: 60})
	add(&propInfo{ID: "C14"})
	add(&propInfo{ID: "C15", Assumptions: []string{"the regular expressions in internal/specre transcribe the CommonMark 0.30 definitions"}})
	add(&propInfo{ID: "C16", FuzzSecs: 60})
	add(&propInfo{ID: "C17", FuzzSecs: 90, Assumptions: []string{"golang.org/x/net/html's tokenizer implements the WHATWG data-state rules"}})
	add(&propInfo{ID: "C18"})
	add(&propInfo{ID: "C19", Race: true, Assumptions: []string{"the Go race detector reports unsynchronised conflicting accesses that happen in a run; schedules are not enumerated"}})
	add(&propInfo{ID: "C20", Level: "fault_enumeration", Assumptions: []string{"canonical style and supported construct set as fixed in DESIGN.md section C20"}})
	return m
}

var verifDir = func() string {
	if d, err := os.Getwd(); err == nil {
		return d
	}
	return "/verif"
}()

func goEnv() []string {
	env := os.Environ()
	set := func(k, v string) {
		for i, e := range env {
			if strings.HasPrefix(e, k+"=") {
				env[i] = k + "=" + v
				return
			}
		}
		env = append(env, k+"="+v)
	}
	set("GOFLAGS", "-mod=mod")
	set("GOPROXY", "off")
	set("GOSUMDB", "off")
	set("GOTOOLCHAIN", "local")
	return env
}

func main() {
	if len(os.Args) < 2 {
		usage()
	}
	id := strings.ToUpper(os.Args[1])
	if id == "BUILD" {
		os.Exit(buildAll())
	}
	p := props()[id]
	if p == nil {
		fmt.Fprintf(os.Stderr, "unknown property %q\n", os.Args[1])
		os.Exit(2)
	}
	tier := os.Getenv("VERIF_TIER")
	replay := ""
	for i := 2; i < len(os.Args); i++ {
		switch a := os.Args[i]; a {
		case "quick", "thorough":
			tier = a
		case "--replay":
			if i+1 >= len(os.Args) {
				usage()
			}
			replay = os.Args[i+1]
			if abs, err := filepath.Abs(replay); err == nil {
				replay = abs
			}
			i++
		default:
			usage()
		}
	}
	if tier != "thorough" {
		tier = "quick"
	}
	seed := int64(1)
	if s := os.Getenv("VERIF_SEED"); s != "" {
		if v, err := strconv.ParseInt(s, 10, 64); err == nil {
			seed = v
		}
	}
	os.Exit(run(p, tier, seed, replay))
}

func usage() {
	fmt.Fprintln(os.Stderr, "usage: check <Cnn> [quick|thorough] [--replay <file>]   |   check build")
	os.Exit(2)
}

func pkgDir(id string) string { return "./props/" + strings.ToLower(id) }
// altTag distinguishes the artefacts of runs against a scratch copy of the
// repository (VERIF_REPO, sensitivity runs) so that they can run side by side.
func altTag() string {
	alt := os.Getenv("VERIF_REPO")
	if alt == "" {
		return ""
	}
	h := fnv.New32a()
	h.Write([]byte(alt))
	return fmt.Sprintf("-alt%08x", h.Sum32())
}

func evidenceDir() string {
	if t := altTag(); t != "" {
		return filepath.Join(verifDir, ".work", "evidence"+t)
	}
	return filepath.Join(verifDir, "evidence")
}

func replayDir() string {
	if t := altTag(); t != "" {
		return filepath.Join(verifDir, ".work", "replays"+t)
	}
	return filepath.Join(verifDir, "replays")
}

func binPath(id string) string {
	return filepath.Join(verifDir, "bin", strings.ToLower(id)+altTag()+".test")
}

func build(p *propInfo) ([]byte, error) {
	args := []string{"test", "-c", "-tags", "verif", "-o", binPath(p.ID)}
	// development aid (sensitivity tests): VERIF_REPO points the build at a
	// scratch copy of the repository instead of /repo, through an alternative
	// go.mod, so that neither /repo nor go.mod is touched
	if alt := os.Getenv("VERIF_REPO"); alt != "" {
		mod, err := os.ReadFile(filepath.Join(verifDir, "go.mod"))
		if err != nil {
			return nil, err
		}
		os.MkdirAll(filepath.Join(verifDir, ".work"), 0o755)
		altmod := filepath.Join(verifDir, ".work", "alt"+altTag()+".mod")
		os.WriteFile(altmod, bytes.ReplaceAll(mod, []byte("=> /repo"), []byte("=> "+alt)), 0o644)
		sum, _ := os.ReadFile(filepath.Join(verifDir, "go.sum"))
		os.WriteFile(filepath.Join(verifDir, ".work", "alt"+altTag()+".sum"), sum, 0o644)
		args = append(args, "-modfile="+altmod)
	}
	if p.Race {
		args = append(args, "-race")
	}
	args = append(args, pkgDir(p.ID))
	cmd := exec.Command("go", args...)
	cmd.Dir = verifDir
	cmd.Env = goEnv()
	return cmd.CombinedOutput()
}

func buildAll() int {
	os.MkdirAll(filepath.Join(verifDir, "bin"), 0o755)
	ids := []string{}
	for id := range props() {
		if _, err := os.Stat(filepath.Join(verifDir, "props", strings.ToLower(id))); err == nil {
			ids = append(ids, id)
		}
	}
	sort.Strings(ids)
	rc := 0
	for _, id := range ids {
		if out, err := build(props()[id]); err != nil {
			fmt.Printf("build %s failed: %v\n%s\n", id, err, out)
			rc = 2
		}
	}
	return rc
}

type checkStats struct {
	Evaluations int64            `json:"evaluations"`
	Requested   int64            `json:"requested"`
	Nontrivial  int64            `json:"nontrivial"`
	Labels      map[string]int64 `json:"labels"`
	Rule        string           `json:"rule"`
	Exhaustive  bool             `json:"exhaustive,omitempty"`
	Bound       string           `json:"bound,omitempty"`
	WallS       float64          `json:"wall_s"`
}

type violation struct {
	Check   string `json:"check"`
	Replay  string `json:"replay"`
	Message string `json:"message"`
}

type knownHit struct {
	ID   string `json:"id"`
	What string `json:"what"`
}

type procStats struct {
	Prop       string                 `json:"property"`
	Checks     map[string]*checkStats `json:"checks"`
	Samples    map[string][]string    `json:"samples"`
	HashFile   string                 `json:"hash_file"`
	Violations []violation            `json:"violations"`
	Known      []knownHit             `json:"known"`
	Notes      []string               `json:"notes"`
	Complete   bool                   `json:"complete"`
	Incon      []string               `json:"inconclusive"`
}

type shardResult struct {
	shard    int
	exit     int
	timedOut bool
	output   []byte
	stats    *procStats
}

func run(p *propInfo, tier string, seed int64, replay string) int {
	start := time.Now()
	os.MkdirAll(filepath.Join(verifDir, "bin"), 0o755)
	os.MkdirAll(filepath.Join(verifDir, "evidence"), 0o755)
	os.MkdirAll(filepath.Join(verifDir, "replays"), 0o755)
	work := filepath.Join(verifDir, ".work", p.ID+"-"+tier+altTag())
	os.RemoveAll(work)
	os.MkdirAll(work, 0o755)
	// rapid would replay fail files first; none are ever written (nofailfile),
	// remove stale ones anyway
	os.RemoveAll(filepath.Join(verifDir, "props", strings.ToLower(p.ID), "testdata", "rapid"))

	if replay == "" {
		// replay files of earlier runs of this property are stale now
		if old, _ := filepath.Glob(filepath.Join(replayDir(), p.ID+"-*.json")); len(old) > 0 {
			for _, f := range old {
				os.Remove(f)
			}
		}
	}
	if out, err := build(p); err != nil {
		fmt.Printf("INCONCLUSIVE property=%s build failed: %v\n%s\n", p.ID, err, out)
		return 2
	}

	shards := 1
	timeout := p.QuickTO
	if tier == "thorough" && replay == "" {
		shards = p.Shards
		timeout = p.ThoroughTO
	}
	if s := os.Getenv("VERIF_SHARDS"); s != "" && replay == "" {
		if v, err := strconv.Atoi(s); err == nil && v > 0 {
			shards = v
		}
	}
	results := make([]shardResult, shards)
	var wg sync.WaitGroup
	for k := 0; k < shards; k++ {
		wg.Add(1)
		go func(k int) {
			defer wg.Done()
			results[k] = runShard(p, tier, seed, k, work, timeout, replay)
		}(k)
	}
	wg.Wait()

	// merge
	merged := map[string]*checkStats{}
	samples := map[string][]string{}
	var viols []violation
	var known []knownHit
	var notes, incon []string
	hashFiles := []string{}
	for _, r := range results {
		if r.timedOut {
			incon = append(incon, fmt.Sprintf("shard %d timed out after %v", r.shard, timeout))
		}
		// the test process died (not by timeout) with a Go runtime crash while
		// a case was in flight: that case is a violation (the library took the
		// process down), reported with the case as its replay file
		if !r.timedOut && (r.stats == nil || !r.stats.Complete) && crashRE.Match(r.output) {
			if replay != "" {
				// replaying a case that brings the process down reproduces the violation
				viols = append(viols, violation{Check: "replay", Replay: replay, Message: string(crashRE.Find(r.output))})
				continue
			}
			infl := filepath.Join(work, fmt.Sprintf("inflight-shard-%d.json", r.shard))
			if b, err := os.ReadFile(infl); err == nil {
				var rf map[string]any
				if json.Unmarshal(b, &rf) == nil {
					lines := strings.Split(strings.TrimSpace(string(r.output)), "\n")
					first := crashRE.Find(r.output)
					rf["message"] = fmt.Sprintf("the test process died while this case was running: %s", first)
					if len(lines) > 40 {
						lines = lines[:40]
					}
					rf["output"] = strings.Join(lines, "\n")
					check, _ := rf["check"].(string)
					path := filepath.Join(replayDir(), fmt.Sprintf("%s-%s-crash-seed%d-shard%d.json", p.ID, check, seed, r.shard))
					os.MkdirAll(replayDir(), 0o755)
					j, _ := json.MarshalIndent(rf, "", " ")
					os.WriteFile(path, j, 0o644)
					viols = append(viols, violation{Check: check, Replay: path, Message: rf["message"].(string)})
					continue
				}
			}
		}
		if r.stats == nil {
			incon = append(incon, fmt.Sprintf("shard %d wrote no statistics (exit %d)", r.shard, r.exit))
			continue
		}
		if !r.stats.Complete {
			if len(r.stats.Violations) == 0 {
				incon = append(incon, fmt.Sprintf("shard %d did not complete (exit %d)", r.shard, r.exit))
			}
		}
		if r.exit != 0 && len(r.stats.Violations) == 0 && r.stats.Complete {
			incon = append(incon, fmt.Sprintf("shard %d exited with status %d without recording a violation", r.shard, r.exit))
		}
		for name, cs := range r.stats.Checks {
			m := merged[name]
			if m == nil {
				m = &checkStats{Labels: map[string]int64{}}
				merged[name] = m
			}
			m.Evaluations += cs.Evaluations
			m.Requested += cs.Requested
			m.Nontrivial += cs.Nontrivial
			m.WallS += cs.WallS
			if cs.Rule != "" {
				m.Rule = cs.Rule
			}
			if cs.Exhaustive {
				m.Exhaustive = true
				m.Bound = cs.Bound
			}
			for l, n := range cs.Labels {
				m.Labels[l] += n
			}
		}
		for name, s := range r.stats.Samples {
			if len(samples[name]) < 6 {
				samples[name] = append(samples[name], s...)
				if len(samples[name]) > 6 {
					samples[name] = samples[name][:6]
				}
			}
		}
		viols = append(viols, r.stats.Violations...)
		known = append(known, r.stats.Known...)
		notes = append(notes, r.stats.Notes...)
		incon = append(incon, r.stats.Incon...)
		if r.stats.HashFile != "" {
			hashFiles = append(hashFiles, r.stats.HashFile)
		}
	}
	distinct := mergeHashes(hashFiles)

	// native coverage-guided fuzzing (thorough tier only; cannot be seeded: its
	// reproducible unit is the crasher file, converted to a replay file here)
	var fuzzNote map[string]any
	if tier == "thorough" && replay == "" && p.FuzzSecs > 0 && (len(viols) == 0 || os.Getenv("VERIF_FUZZONLY") != "") && os.Getenv("VERIF_NOFUZZ") == "" {
		secs := p.FuzzSecs
		if v, err := strconv.ParseFloat(os.Getenv("VERIF_SCALE"), 64); err == nil && v > 0 && v < 1 {
			secs = int(float64(secs)*v) + 5
		}
		v, note := runFuzz(p, secs, seed)
		fuzzNote = note
		viols = append(viols, v...)
	}

	// shortfall: rapid stops early at the test deadline and still says OK
	for name, m := range merged {
		if m.Requested > 0 && m.Evaluations < m.Requested && len(viols) == 0 {
			incon = append(incon, fmt.Sprintf("check %s evaluated %d of %d requested cases", name, m.Evaluations, m.Requested))
		}
	}

	if replay != "" {
		for _, r := range results {
			os.Stdout.Write(r.output)
		}
		if len(viols) > 0 {
			fmt.Printf("VIOLATION property=%s replay=%s\n", p.ID, replay)
			return 1
		}
		if len(incon) > 0 {
			fmt.Printf("INCONCLUSIVE property=%s %s\n", p.ID, strings.Join(incon, "; "))
			return 2
		}
		fmt.Printf("replay passes: property=%s %s\n", p.ID, replay)
		return 0
	}

	// evidence
	var totalEval, totalDistinct int64
	names := make([]string, 0, len(merged))
	for n := range merged {
		names = append(names, n)
	}
	sort.Strings(names)
	perCheck := map[string]any{}
	var rules []string
	var allSamples []any
	exhaustive := len(names) > 0
	for _, n := range names {
		m := merged[n]
		totalEval += m.Evaluations
		totalDistinct += distinct[n]
		pc := map[string]any{
			"evaluations":         m.Evaluations,
			"distinct_nontrivial": distinct[n],
			"nontrivial":          m.Nontrivial,
			"rule":                m.Rule,
			"labels":              m.Labels,
			"wall_s":              round(m.WallS),
		}
		if m.Exhaustive {
			pc["exhaustive"] = true
			pc["bound"] = m.Bound
		} else {
			exhaustive = false
		}
		perCheck[n] = pc
		if m.Rule != "" {
			rules = append(rules, n+": "+m.Rule)
		}
		for _, s := range samples[n] {
			allSamples = append(allSamples, map[string]string{"check": n, "case": s})
		}
	}
	cov := map[string]any{
		"evaluations":         totalEval,
		"distinct_nontrivial": totalDistinct,
		"rule":                strings.Join(rules, " || "),
		"samples":             allSamples,
		"checks":              perCheck,
		"shards":              shards,
	}
	if exhaustive {
		cov["exhaustive"] = true
	}
	if fuzzNote != nil {
		cov["native_fuzz"] = fuzzNote
	}
	if len(known) > 0 {
		cov["known_findings_reproduced"] = known
	}
	if len(notes) > 0 {
		cov["notes"] = notes
	}
	if len(incon) > 0 {
		cov["inconclusive"] = incon
	}
	ev := map[string]any{
		"property_id": p.ID,
		"tier":        tier,
		"seed":        seed,
		"level":       p.Level,
		"coverage":    cov,
		"assumptions": p.Assumptions,
		"wall_s":      round(time.Since(start).Seconds()),
		"violations":  len(viols),
	}
	j, _ := json.MarshalIndent(ev, "", " ")
	os.MkdirAll(evidenceDir(), 0o755)
	os.WriteFile(filepath.Join(evidenceDir(), p.ID+".json"), append(j, '\n'), 0o644)

	for _, k := range known {
		fmt.Printf("KNOWN-FINDING: property=%s %s %s\n", p.ID, k.ID, k.What)
	}
	if len(viols) > 0 {
		seen := map[string]bool{}
		for _, v := range viols {
			if seen[v.Replay] {
				continue
			}
			seen[v.Replay] = true
			msg := v.Message
			if i := strings.IndexByte(msg, '\n'); i >= 0 {
				msg = msg[:i]
			}
			if len(msg) > 300 {
				msg = msg[:300] + "..."
			}
			fmt.Printf("VIOLATION property=%s replay=%s\n", p.ID, v.Replay)
			fmt.Printf("  check=%s %s\n", v.Check, msg)
		}
		return 1
	}
	if len(incon) > 0 {
		fmt.Printf("INCONCLUSIVE property=%s %s\n", p.ID, strings.Join(incon, "; "))
		for _, r := range results {
			if r.exit != 0 {
				out := r.output
				if len(out) > 6000 {
					out = out[len(out)-6000:]
				}
				fmt.Printf("--- shard %d output (tail) ---\n%s\n", r.shard, out)
			}
		}
		return 2
	}
	fmt.Printf("OK property=%s tier=%s seed=%d evaluations=%d distinct_nontrivial=%d wall=%.1fs\n", p.ID, tier, seed, totalEval, totalDistinct, time.Since(start).Seconds())
	os.RemoveAll(work)
	return 0
}

func round(f float64) float64 { return float64(int64(f*100)) / 100 }

func runShard(p *propInfo, tier string, seed int64, shard int, work string, timeout time.Duration, replay string) shardResult {
	res := shardResult{shard: shard}
	out := filepath.Join(work, fmt.Sprintf("shard-%d.json", shard))
	ctx, cancel := context.WithTimeout(context.Background(), timeout)
	defer cancel()
	args := []string{"-test.run", "^TestProperty$", "-test.timeout", "0", "-test.count", "1"}
	cmd := exec.CommandContext(ctx, binPath(p.ID), args...)
	cmd.Dir = filepath.Join(verifDir, "props", strings.ToLower(p.ID))
	env := goEnv()
	env = append(env,
		"VERIF_PROP="+p.ID,
		"VERIF_TIER="+tier,
		"VERIF_SEED="+strconv.FormatInt(seed, 10),
		"VERIF_SHARD="+strconv.Itoa(shard),
		"VERIF_OUT="+out,
		"VERIF_REPLAYS="+replayDir(),
		"VERIF_FINDINGS="+filepath.Join(verifDir, "known_findings.json"),
		"VERIF_REPLAY="+replay,
	)
	if p.Race {
		racelog := filepath.Join(work, fmt.Sprintf("race-shard-%d", shard))
		env = append(env, "GORACE=halt_on_error=0 log_path="+racelog, "VERIF_RACELOG="+racelog)
	}
	cmd.Env = env
	var buf bytes.Buffer
	cmd.Stdout = &buf
	cmd.Stderr = &buf
	err := cmd.Run()
	res.output = buf.Bytes()
	if ctx.Err() == context.DeadlineExceeded {
		res.timedOut = true
	}
	if err != nil {
		res.exit = 1
		if ee, ok := err.(*exec.ExitError); ok {
			res.exit = ee.ExitCode()
		}
	}
	if b, err := os.ReadFile(out); err == nil {
		var ps procStats
		if json.Unmarshal(b, &ps) == nil {
			res.stats = &ps
		}
	}
	return res
}

// mergeHashes counts, per check, the distinct hashes over all shard files.
func mergeHashes(files []string) map[string]int64 {
	all := map[string][]uint64{}
	for _, fn := range files {
		f, err := os.Open(fn)
		if err != nil {
			continue
		}
		sc := bufio.NewScanner(f)
		sc.Buffer(make([]byte, 1<<16), 1<<20)
		cur := ""
		for sc.Scan() {
			line := sc.Text()
			if strings.HasPrefix(line, "#") {
				cur = strings.Fields(line[1:])[0]
				continue
			}
			if h, err := strconv.ParseUint(line, 16, 64); err == nil {
				all[cur] = append(all[cur], h)
			}
		}
		f.Close()
	}
	out := map[string]int64{}
	for name, hs := range all {
		sort.Slice(hs, func(i, j int) bool { return hs[i] < hs[j] })
		var n int64
		for i, h := range hs {
			if i == 0 || h != hs[i-1] {
				n++
			}
		}
		out[name] = n
	}
	return out
}

var crashRE = regexp.MustCompile(`(?m)^(fatal error: .*|panic: .*|runtime: goroutine stack exceeds.*)$`)
var fuzzExecsRE = regexp.MustCompile(`execs: ([0-9]+)`)
var fuzzCaseRE = regexp.MustCompile(`case: in=("(?:[^"\\]|\\.)*")`)
var fuzzFileRE = regexp.MustCompile(`Failing input written to (\S+)`)

// runFuzz runs the package's FuzzProperty target for secs seconds and turns a
// crasher into a replay file.
func runFuzz(p *propInfo, secs int, seed int64) ([]violation, map[string]any) {
	pkg := filepath.Join(verifDir, "props", strings.ToLower(p.ID))
	crashDir := filepath.Join(pkg, "testdata", "fuzz", "FuzzProperty")
	os.RemoveAll(crashDir)
	args := []string{"test", "-tags", "verif", "-run", "^$", "-fuzz", "^FuzzProperty$", "-fuzztime", fmt.Sprintf("%ds", secs)}
	if t := altTag(); t != "" {
		args = append(args, "-modfile="+filepath.Join(verifDir, ".work", "alt"+t+".mod"))
	}
	args = append(args, pkgDir(p.ID))
	ctx, cancel := context.WithTimeout(context.Background(), time.Duration(secs+600)*time.Second)
	defer cancel()
	cmd := exec.CommandContext(ctx, "go", args...)
	cmd.Dir = verifDir
	cmd.Env = append(goEnv(), "VERIF_PROP="+p.ID, "VERIF_TIER=thorough", "VERIF_FINDINGS="+filepath.Join(verifDir, "known_findings.json"))
	out, err := cmd.CombinedOutput()
	note := map[string]any{"target": "FuzzProperty", "seconds": secs}
	if m := fuzzExecsRE.FindAllSubmatch(out, -1); len(m) > 0 {
		n, _ := strconv.ParseInt(string(m[len(m)-1][1]), 10, 64)
		note["execs"] = n
	}
	var viols []violation
	files, _ := filepath.Glob(filepath.Join(crashDir, "*"))
	if err != nil && len(files) == 0 {
		// a seed corpus entry failed (no crasher file is written for those):
		// recover the input from the failure message
		if m := fuzzCaseRE.FindSubmatch(out); m != nil && bytes.Contains(out, []byte("violated:")) {
			if in, uerr := strconv.Unquote(string(m[1])); uerr == nil {
				i := bytes.Index(out, []byte("violated:"))
				end := i + 400
				if end > len(out) {
					end = len(out)
				}
				msg := string(out[i:end])
				rf := map[string]any{"property": p.ID, "check": fuzzCheckName(p.ID), "case": map[string]any{"in": []byte(in)},
					"input_quoted": fmt.Sprintf("%q", in), "message": msg, "seed": seed, "tier": "thorough"}
				j, _ := json.MarshalIndent(rf, "", " ")
				os.MkdirAll(replayDir(), 0o755)
				path := filepath.Join(replayDir(), fmt.Sprintf("%s-fuzz-seedcorpus.json", p.ID))
				os.WriteFile(path, j, 0o644)
				return []violation{{Check: "native_fuzz", Replay: path, Message: msg}}, note
			}
		}
		tail := out
		if len(tail) > 1500 {
			tail = tail[len(tail)-1500:]
		}
		note["inconclusive"] = "go test -fuzz exited with " + err.Error() + ": " + string(tail)
		return nil, note
	}
	for _, f := range files {
		b, rerr := os.ReadFile(f)
		if rerr != nil {
			continue
		}
		lines := strings.SplitN(string(b), "\n", 3)
		if len(lines) < 2 || !strings.HasPrefix(lines[1], "[]byte(") {
			continue
		}
		q := strings.TrimSuffix(strings.TrimPrefix(strings.TrimSpace(lines[1]), "[]byte("), ")")
		in, uerr := strconv.Unquote(q)
		if uerr != nil {
			continue
		}
		msg := "native fuzzing found a failing input"
		if i := bytes.Index(out, []byte("violated:")); i >= 0 {
			end := i + 400
			if end > len(out) {
				end = len(out)
			}
			msg = string(out[i:end])
		}
		rf := map[string]any{"property": p.ID, "check": fuzzCheckName(p.ID), "case": map[string]any{"in": []byte(in)},
			"input_quoted": fmt.Sprintf("%q", in), "message": msg, "seed": seed, "tier": "thorough"}
		j, _ := json.MarshalIndent(rf, "", " ")
		os.MkdirAll(replayDir(), 0o755)
		path := filepath.Join(replayDir(), fmt.Sprintf("%s-fuzz-%s.json", p.ID, filepath.Base(f)))
		os.WriteFile(path, j, 0o644)
		viols = append(viols, violation{Check: "native_fuzz", Replay: path, Message: msg})
	}
	os.RemoveAll(filepath.Join(pkg, "testdata"))
	return viols, note
}

func fuzzCheckName(id string) string {
	switch id {
	case "C04":
		return "pipeline"
	case "C07":
		return "safe_output"
	case "C17":
		return "filter"
	case "C16":
		return "reparse"
	case "C10":
		return "render"
	}
	return "memory"
}
