#!/usr/bin/env python3
# validates MANIFEST.json and evidence/*.json against the schemas (dev aid; uses the tooling venv)
import json,sys,glob
import jsonschema
m=json.load(open('/verif/MANIFEST.json')) if len(sys.argv)<2 or sys.argv[1]=='all' else None
if m is not None:
    jsonschema.validate(m,json.load(open('/root/.vp/MANIFEST.schema.json'))); print('MANIFEST ok',len(m['checks']),'checks')
es=json.load(open('/root/.vp/EVIDENCE.schema.json'))
for f in sorted(glob.glob('/verif/evidence/*.json')):
    try:
        jsonschema.validate(json.load(open(f)),es); print(f,'ok')
    except Exception as e:
        print(f,'INVALID',str(e)[:300])
