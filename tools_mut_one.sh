#!/bin/sh
# dev aid: apply one mutant (file, site index from `bin/mutate list`) to a scratch copy of /repo and run the given quick checks against it
# usage: tools_mut_one.sh <file.go> <site> <Cnn> [Cnn...]
f=$1; site=$2; shift 2
d=/tmp/mut/one_$$
rm -rf $d; mkdir -p $d
git -C /repo archive HEAD | tar -x -C $d
/verif/bin/mutate apply /repo/$f $site $d/$f || exit 2
for p in "$@"; do
  VERIF_REPO=$d /verif/check $p quick 2>&1 | grep -E "^(OK|VIOLATION|INCONCLUSIVE|  check=)" | cut -c1-400 | head -4
done
rm -rf $d
