#!/bin/sh
# dev aid: print the diff of one mutant: tools_mut_show.sh <file.go> <site>
t=$(mktemp); /verif/bin/mutate apply /repo/$1 $2 $t >/dev/null && diff -uw /repo/$1 $t | tail -n +3; rm -f $t
