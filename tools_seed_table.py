#!/usr/bin/env python3
"""Prints the markdown table of seeded changes for DESIGN.md section 14 from seeded/*/meta.json."""
import json, glob, re, os, sys
sys.path.insert(0, "/verif")
from tools_seed_summaries import summary
strengthened = {
 "C01-13": "missed at first: long streamed documents held no NUL; gen.LongDoc now places single NULs, short runs and runs of thousands of NULs at drawn offsets, and C01 has the check stream_documents (17-90 KB, greedy reads, fixed chunks around 8 KiB, G5 schedules)",
 "C19-13": "missed at first: concurrent parses only saw small inputs; every batch now also holds three large documents (hundreds of root blocks) that are parsed at once, so anything the library does only above a size is reached concurrently",
 "C10-13": "missed at first: no code line began with a tab of which only part is indentation under an indented fence or inside a container; such fragments added to the generators",
 "C06-13": "missed at first by C06 (caught by C15 and C10): the model's destinations came from a fixed pool; they are now also composed from units (safe runs, characters to encode, complete / truncated / malformed percent escapes) so that every kind of piece follows every other",
 "C05-1": "missed at first: generators never nested link-in-image-in-link; fragments for nested bracket shapes added (G2/G3)",
 "C10-1": "missed at first: no upper-case tag names of equal length were generated and C10 accepted either spelling of a '<' inside raw HTML under a filter; shared HTML soup generator with upper-case names added and C10 now predicts the filtered bytes exactly (FilterRawRef)",
 "C12-2": "missed at first: every definition was its own root block; definitions at different depths of one root block added",
 "C14-1": "missed at first: C14 only went through Parse; streaming variant with one-byte reads added",
 "C15-1": "missed at first: rule alphabets had no white space other than space/tab; form feed, NBSP added",
 "C06-1": "C06's model never writes fused delimiter runs (conservative by design); C11 owns it and catches it",
 "C10-3": "missed at first: info strings with references that decode to white space were not generated; payloads/fragments added",
 "C10-4": "missed at first: tight items holding quote + thematic break + paragraph were not generated; fragments added and the C06 model now builds tight items from block sequences",
 "C06-4": "missed at first: the serializer never put a tab after a quote marker; added for top-level quotes",
 "C03-4": "missed at first: labels ending in backslash + letter were not generated; fragments added",
 "C04-3": "missed at first: schedules never had ~100 empty reads; schedule mode with an empty read after every data read added",
 "C17-4": "missed at first: no inline HTML followed by an HTML block inside one container; structured generator added",
 "C11-4": "missed at first: no run of 256+ delimiters; check long_runs (every run length 1..700 in seven templates) added",
 "C12-3": "missed at first: uses were only generated at top level; uses inside quotes/lists with labels that start or end with a line ending added",
 "C14-3": "missed at first: no input started with U+FEFF; fragment added",
 "C13-4": "missed at first: the hard-break shape predicate accepted a bare backslash; tightened to backslash + line ending as the property states",
 "C04-5": "missed at first: no run of exactly 32 backticks; enumerated check run_lengths added (37 units x 14 templates x every length 1..40 and around every power of two up to 1024; thorough every length to 1100)",
 "C04-6": "missed at first: no walk was ever cut short; the pipeline now aborts walks by Pre/Post at several ordinals and then formats, renders and walks again",
 "C06-6": "missed at first by C06 (caught by C12): the model's labels were unique; competing definitions (also in another case, inside quotes) and definitions that follow their uses added to the model",
 "C07-6": "missed at first by C07 and C08 (caught by C01): no long document of many root blocks; gen.LongDoc added, C08 check long_documents and a streaming entry with incremental rewriting in C07 (check streamed_long)",
 "C08-6": "missed at first: long inputs were mostly one huge block; check long_documents (20-120 KB, hundreds of root blocks, full-size reads, blocks held to the end) added",
 "C09-5": "missed at first by C09 (caught by C12): competing definitions at different depths with a use were too rare; checks quote_refs / list_refs (gen.RefsDoc) added",
 "C09-6": "missed at first: no multi-line label next to 999 characters inside a container; checks quote_long_labels / list_long_labels (gen.LongLabelDoc) and C06 boundary documents with such labels in containers added",
 "C16-6": "missed at first by C16 (caught by C08): blocks were re-read with one Read; re-parse now also goes through one-byte, one-line-ending and 7-byte readers",
 "C18-5": "missed at first: trees were never deeper than 16 frames; gen.Deep (up to 48 nested containers, 40 nested inlines, 150 siblings) is one case in five",
 "C18-6": "missed at first: ChildCount and Child were always supplied together; views with only one of them added",
 "C20-5": "missed at first: literal text never looked like an entity; syntax-looking literal words (&amp; <b> *a* [x](y) 1. ...) added to the document model (C06 and C20)",
 "C04-8": "missed at first: the inline parser was always given a matcher; the pipeline now also uses zero-value InlineParser and HTMLRenderer values, a nil reference map and blocks without inline parsing",
 "C05-8": "missed at first: no ordered marker with a leading zero and 8/9; such markers added to G1/G2 and C05 now requires ListItemNumber to equal the decimal value of the marker's digits",
 "C06-7": "missed at first: the serializer never began an item with a blank line; added as a spelling choice (marker alone on its line, content at marker width + 1)",
 "C10-8": "missed at first: invalid UTF-8 never sat inside a destination; check render_sinks (hostile payloads in every sink) added to C10 and invalid bytes inside constructs added to G1",
 "C11-7": "missed at first by C11 (caught by C06): C11's strings were single lines; metamorphic check after_multi_line added (delimiter runs after a two-line link, image, code span or reference resolve as after the one-line spelling)",
 "C11-8": "missed at first: the alphabets had no non-ASCII symbol; € added to the extended alphabet (Sc; symbols are not punctuation in 0.30)",
 "C12-7": "missed at first: labels never held a literal backslash before white space; bare backslash units added to the label alphabet",
 "C13-8": "missed at first: streamed inputs were short; check stream_documents (20-70 KB, hundreds of root blocks, examined after the last read) added to all four tree properties",
 "C14-8": "missed at first by C14 (caught by C10 and C17): the relation was only checked under the default renderer; it now also runs under two tag filters, IgnoreRaw and other soft-break behaviours",
 "C15-8": "missed at first: leading zeros beyond the short alphabets; enumerated check counted_lines (1-12 digits with every number of leading zeros, marker runs of 1-12) added, and C06 boundary documents with leading zeros",
 "C16-7": "missed at first: no definition on a tab-indented continuation line; fragments with every kind of indentation before a continuation definition added to G1/G2",
 "C19-7": "missed at first: every goroutine parsed a private copy; inputs are now adjacent sub-slices of one shared buffer (with NUL-bearing documents in every batch) and the buffer is compared afterwards",
 "C20-7": "missed at first: canonical documents only used '-' bullets; the marker characters the formatter copies through (bullet, ordered delimiter, emphasis character) are now free",
 "C20-8": "missed at first: no code line with a fence run followed by white space; such lines added to the model's code content, which also exposed two genuine formatter defects (section 12)",
 "C08-10": "missed at first: no injected error wrapped io.EOF; error values that unwrap to io.EOF added, and a terminal error that is plain io.EOF after a fault is a violation",
 "C12-10": "missed at first: definitions were always written on one line; destination / title on the following line, angle-bracket destinations and CRLF / CR documents added",
 "C14-9": "missed at first: no input ended in a fence line whose info string ends in a backtick; enumerated check last_lines (39 contexts x 130 last lines x 3 line-ending styles) added",
 "C15-9": "missed at first by C15 (whose recognizer is unchanged; caught by C06): the model lengthened the fence for any fence-like content; it may now use the shortest fence by the exact closing-fence rule, with indented fence-like content lines",
 "C17-10": "missed at first by C17 (caught by C10): C17 never set IgnoreRaw; configuration added",
 "C18-9": "missed at first: documents without blocks were skipped; walks over the zero Node of an empty document (virtual root and library defaults) added",
 "C02-9": "missed at first: no backslash before a non-ASCII character inside an info string; backslash before non-ASCII / NUL / invalid bytes added in every place where escapes are processed (info strings, destinations, titles, labels, attribute values, code spans)",
 "C04-12": "missed at first by C04 (caught by C15 and C10): no destination ended in a truncated percent escape; fragments added",
 "C05-12": "missed at first: the grammar still counted Indent as phrasing content (true on the pinned tree before the continuation-line repair); removed after 12 million cases showed the repaired tree never puts an Indent directly into a paragraph, heading, emphasis or link text",
 "C06-12": "owned by C11 and C15, which catch it (the model never puts a symbol next to a delimiter run)",
 "C07-11": "missed at first: the renderer always got the document's own map; one case in five now renders with no map and with a foreign map",
 "C08-11": "missed at first: only the harness's own reader type was used; check std_readers (bytes / strings / Section / bufio / iotest readers, half of them positioned past the start) added",
 "C08-12": "missed at first: no single block over 120 KB; check large_blocks (300 KB to just under the 1 MiB limit, and blank-line runs of 0.6-2 MB) added",
 "C09-12": "missed at first: D never had 20 nested containers; checks quote_deep / list_deep (gen.Deep) added",
 "C10-12": "missed at first: no numeric reference in the C1 range; every class of numeric reference added to the fragments and payloads",
 "C11-11": "missed at first: no supplementary-plane punctuation; U+10100 added to the extended alphabet",
 "C11-12": "missed at first: no bracket in the alphabets; exhaustive check over {* _ a SP [ !} added (openers that are never closed are plain punctuation)",
 "C12-11": "missed at first: full references always had link text; empty link text added",
 "C12-12": "missed at first: the use was always followed by a word; uses at the end of a line, as ATX heading content and as the last bytes of a document without final newline added",
 "C14-12": "missed at first: pads were 1-5 lines and only went through Parse; the padding relation now also runs through the streaming parser, and check long_padding uses 0.9-2.2 MB of blank lines",
 "C19-11": "missed at first: every goroutine had its own InlineParser; one shared InlineParser value added, and panics on goroutines are recovered into violations",
 "C19-12": "missed at first: the expected results were computed from the shared tree before the goroutines started, which warmed any first-use cache; they now come from a second parse and the shared tree and map are fresh",
 "C20-12": "missed at first by C20 (caught by C15): canonical destinations were plain ASCII; destinations with characters to encode (also last) added",
 "C19-4": "missed at first: batches had no long destination that needs percent-encoding; rare-path constructs added to every batch",
 "C20-16": "missed at first: the model kept destination parentheses balanced by construction; they are free now (unbalanced, or balanced in number only) and the serializer escapes them or uses angle brackets where a bare spelling would not be a balanced destination",
 "C07-15": "missed at first by C07 (caught by C10): C07 rendered block by block through AppendBlock; it now also renders the whole document through Render, twice per renderer value, against the same grammar and the census of all blocks",
 "C10-16": "missed at first: every configuration got a fresh renderer; every other case now keeps one HTMLRenderer value and sets its fields anew for each of the 24-30 configurations",
 "C17-16": "missed at first: no tag name longer than about ten bytes; enumerated check name_lengths (every name length 1..70 and around 128, 256, 512, 1024, 4096; thorough every length to 1100; four spellings x four contexts, with the predicate that rejects exactly that name) and tags with names of 1-80 bytes in the HTML soup",
 "C19-15": "missed at first: every concurrent Render wrote to a healthy buffer; one call in five now writes to a writer that fails and one in five to a writer that yields inside Write",
 "C19-16": "missed at first (also by C18, whose walks are sequential): no walk was cut short in C19; walks aborted by Post / pruned by Pre now run before the concurrent phase and inside it, next to the renders, formats and full walks",
 "C06-15": "missed at first by C06 (caught by C10): tight sequences had at most three blocks and never began with a quote; up to four blocks now, and a quote may be the first block of a tight item",
 "C06-16": "C06's model never writes fused delimiter runs (conservative by design); C11 owns it and catches it",
 "C11-16": "missed at first by C11 (caught by C15's sweep of all code points): the alphabets held ten non-ASCII characters; enumerated check code_points puts every non-ASCII code point (quick: the BMP and every 17th above; thorough: all) before and after delimiter runs in six templates that tell white space, punctuation and other characters apart",
 "C04-15": "missed at first: no construct interior longer than 3000 bytes except in repeated-fragment mode; enumerated check long_interiors (20 non-nesting units x 14 templates x lengths 2048-20000, thorough 1500-100000 around every power of two)",
 "C04-16": "missed at first: no e-mail autolink cut off after '@' at the very end of a span; enumerated corpus gen.TruncDocs (60 complete constructs cut after every byte, as the last bytes of a document, a heading, a quote, a list item and an enclosing inline) joined to gen.EdgeDocs, and the whole corpus now also runs in C04 (check edge_documents)",
 "C12-15": "missed at first by C12 (caught by C09's long-label checks): C12 had no label near the limit; check long_labels (985-1003 characters of one to four bytes each, on 1-40 lines, in four containers, four use forms), which also exposed that the library counted bytes (repaired, section 12)",
}
rows = []
for d in sorted(glob.glob("/verif/seeded/*/meta.json"), key=lambda p: (p.split("/")[3].split("-")[0], int(p.split("/")[3].split("-")[1]))):
    m = json.load(open(d))
    first = summary[m["id"]]
    if m.get("summary") != first:
        m["summary"] = first
        json.dump(m, open(d, "w"), indent=1)
    caught = [p for p, c in m["checks"].items() if c["caught"]]
    missed = [p for p, c in m["checks"].items() if not c["caught"]]
    rows.append("| %s | %s | %s | %s | %s |" % (m["id"], m["property"], first.replace("|", "\\|"), ", ".join(caught) or "-", (("not caught by " + ", ".join(missed) + "; ") if missed else "") + strengthened.get(m["id"], "")))
print("| seed | property | the change; what an input needs to show it | caught by (quick tier) | notes |")
print("|---|---|---|---|---|")
print("\n".join(rows))
