#!/usr/bin/env python3
"""Prints the markdown table of seeded changes for DESIGN.md section 14 from seeded/*/meta.json."""
import json, glob, re, os, sys
sys.path.insert(0, "/verif")
from tools_seed_summaries import summary
strengthened = {
 "C05-1": "missed at first: generators never nested link-in-image-in-link; fragments for nested bracket shapes added (G2/G3)",
 "C10-1": "missed at first: no upper-case tag names of equal length were generated and C10 accepted either spelling of a '<' inside raw HTML under a filter; shared HTML soup generator with upper-case names added and C10 now predicts the filtered bytes exactly (FilterRawRef)",
 "C12-2": "missed at first: every definition was its own root block; definitions at different depths of one root block added",
 "C14-1": "missed at first: C14 only went through Parse; streaming variant with one-byte reads added",
 "C15-1": "missed at first: rule alphabets had no white space other than space/tab; form feed, NBSP added",
 "C06-1": "C06's model never writes fused delimiter runs (conservative by design); C11 owns it and catches it",
 "C10-3": "missed at first: info strings with references that decode to white space were not generated; payloads/fragments added",
 "C10-4": "missed at first: tight items holding quote + thematic break + paragraph were not generated; fragments added and the C06 model now builds tight items from block sequences",
 "C06-4": "missed at first: the serializer never put a tab after a quote marker; added for top-level quotes",
 "C03-4": "missed at first: labels ending in backslash + letter were not generated; fragments added",
 "C04-3": "missed at first: schedules never had ~100 empty reads; schedule mode with an empty read after every data read added",
 "C17-4": "missed at first: no inline HTML followed by an HTML block inside one container; structured generator added",
 "C11-4": "missed at first: no run of 256+ delimiters; check long_runs (every run length 1..700 in seven templates) added",
 "C12-3": "missed at first: uses were only generated at top level; uses inside quotes/lists with labels that start or end with a line ending added",
 "C14-3": "missed at first: no input started with U+FEFF; fragment added",
 "C13-4": "missed at first: the hard-break shape predicate accepted a bare backslash; tightened to backslash + line ending as the property states",
 "C19-4": "missed at first: batches had no long destination that needs percent-encoding; rare-path constructs added to every batch",
}
rows = []
for d in sorted(glob.glob("/verif/seeded/*/meta.json"), key=lambda p: (p.split("/")[3].split("-")[0], int(p.split("/")[3].split("-")[1]))):
    m = json.load(open(d))
    first = summary[m["id"]]
    if m.get("summary") != first:
        m["summary"] = first
        json.dump(m, open(d, "w"), indent=1)
    caught = [p for p, c in m["checks"].items() if c["caught"]]
    missed = [p for p, c in m["checks"].items() if not c["caught"]]
    rows.append("| %s | %s | %s | %s | %s |" % (m["id"], m["property"], first.replace("|", "\\|"), ", ".join(caught) or "-", (("not caught by " + ", ".join(missed) + "; ") if missed else "") + strengthened.get(m["id"], "")))
print("| seed | property | the change; what an input needs to show it | caught by (quick tier) | notes |")
print("|---|---|---|---|---|")
print("\n".join(rows))
