#!/usr/bin/env python3
"""Evaluate one seeded change: confirm it (compiles, suite passes, demo fails with / passes without)
in a scratch worktree, then run the given checks against the patched tree (through VERIF_REPO).
usage: tools_seed_eval.py <patch.diff> <demo_test.go> <name> <Cnn> [Cnn...]   ->  JSON on stdout"""
import sys, os, subprocess, json, re, shutil, time
patch, demo, name = sys.argv[1], sys.argv[2], sys.argv[3]
props = sys.argv[4:]
env = dict(os.environ, GOFLAGS="-mod=mod", GOPROXY="off", GOSUMDB="off", GOTOOLCHAIN="local")
wt = "/tmp/wt/eval-" + name
def sh(cmd, cwd=None, timeout=1800, extra=None):
    e = dict(env); e.update(extra or {})
    p = subprocess.run(cmd, shell=True, cwd=cwd, env=e, capture_output=True, text=True, errors="replace", timeout=timeout)
    return p.returncode, (p.stdout + p.stderr)
subprocess.run("git -C /repo worktree remove --force %s 2>/dev/null; rm -rf %s; git -C /repo worktree add -q --detach %s HEAD" % (wt, wt, wt), shell=True)
res = {"name": name, "patch": patch}
try:
    demo_src = open(demo).read()
    sub = "format" if re.search(r"^package format", demo_src, re.M) else "."
    demo_dst = os.path.join(wt, sub, "zz_seed_demo_test.go")
    m = re.findall(r"^func (Test\w+)\(", demo_src, re.M)
    run = "^(" + "|".join(m) + ")$" if m else "."
    pkg = "./format" if sub == "format" else "."
    # clean HEAD: demo must pass
    shutil.copy(demo, demo_dst)
    rc, out = sh("go test -count=1 -run '%s' %s" % (run, pkg), cwd=wt)
    res["demo_passes_clean"] = rc == 0
    if rc != 0: res["demo_clean_output"] = out[-1500:]
    os.remove(demo_dst)
    rc, out = sh("git apply %s" % patch, cwd=wt)
    res["applies"] = rc == 0
    if rc != 0:
        res["apply_output"] = out[-800:]
        raise SystemExit
    rc, out = sh("go build ./... && go vet . ./format", cwd=wt)
    res["builds"] = rc == 0
    rc, out = sh("go test -count=1 ./...", cwd=wt)
    res["suite_passes"] = rc == 0
    if rc != 0: res["suite_output"] = out[-1500:]
    shutil.copy(demo, demo_dst)
    rc, out = sh("go test -count=1 -run '%s' %s" % (run, pkg), cwd=wt)
    res["demo_fails_patched"] = rc != 0
    os.remove(demo_dst)
    sh("git checkout -- go.sum", cwd=wt)
    res["checks"] = {}
    for p in props:
        t0 = time.time()
        rc, out = sh("./check %s quick" % p, cwd="/verif", extra={"VERIF_REPO": wt})
        lines = [l for l in out.splitlines() if l.startswith(("VIOLATION", "OK", "INCONCLUSIVE", "  check="))]
        res["checks"][p] = {"exit": rc, "wall_s": round(time.time() - t0, 1), "lines": [l[:300] for l in lines[:6]]}
finally:
    subprocess.run("git -C /repo worktree remove --force %s; git -C /repo worktree prune" % wt, shell=True)
    print(json.dumps(res, indent=1))
