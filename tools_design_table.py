#!/usr/bin/env python3
"""Replaces the seeded-changes table in DESIGN.md section 14 with the output of tools_seed_table.py."""
import subprocess, re
t = subprocess.run(["python3", "/verif/tools_seed_table.py"], capture_output=True, text=True, check=True).stdout.rstrip("\n")
d = open("/verif/DESIGN.md").read()
a = d.index("| seed | property | the change")
b = d.index("\n\n", a)
open("/verif/DESIGN.md", "w").write(d[:a] + t + d[b:])
print("rows:", t.count("\n") - 1)
