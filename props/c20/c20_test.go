// Package c20 decides property C20: Format is total, deterministic, pure and
// propagates the writer's first error; on canonical-style documents it is
// meaning-preserving and idempotent.
package c20

import (
	"bytes"
	"errors"
	"fmt"
	"strings"
	"testing"

	"pgregory.net/rapid"
	"verif/internal/cmutil"
	"verif/internal/findings"
	"verif/internal/gen"
	"verif/internal/harness"
	"verif/internal/htmlnorm"
	"verif/internal/model"
	"verif/internal/tree"
	cm "zombiezen.com/go/commonmark"
	"zombiezen.com/go/commonmark/format"
)

func TestMain(m *testing.M) { harness.Main(m) }

var errSink = errors.New("injected writer fault")

// countingWriter implements io.Writer and io.StringWriter; failAt < 0 never fails.
type countingWriter struct {
	buf       bytes.Buffer
	calls     int
	failAt    int
	afterFail int
	failed    bool
}

func (w *countingWriter) step(p []byte) (int, error) {
	if w.failed {
		w.afterFail++
		return 0, errSink
	}
	if w.calls == w.failAt {
		w.failed = true
		w.calls++
		return 0, fmt.Errorf("write %d: %w", w.calls, errSink)
	}
	w.calls++
	w.buf.Write(p)
	return len(p), nil
}
func (w *countingWriter) Write(p []byte) (int, error)       { return w.step(p) }
func (w *countingWriter) WriteString(s string) (int, error) { return w.step([]byte(s)) }

// plainWriter has only Write.
type plainWriter struct{ w *countingWriter }

func (p plainWriter) Write(b []byte) (int, error) { return p.w.step(b) }

func dumpAll(blocks []*cm.RootBlock) string {
	var sb strings.Builder
	for _, b := range blocks {
		sb.WriteString(tree.DumpRoot(b, 0, 0))
	}
	return sb.String()
}

// first clause
func propTotal(c harness.Case) harness.Result {
	blocks, _ := cm.Parse(append([]byte(nil), c.In...))
	res := harness.Result{Labels: gen.Classify(c.In)}
	before := dumpAll(blocks)
	var b1, b2 bytes.Buffer
	if err := format.Format(&b1, blocks); err != nil {
		res.Err = fmt.Errorf("Format on a bytes.Buffer returned %v", err)
		return res
	}
	if err := format.Format(&b2, blocks); err != nil || b1.String() != b2.String() {
		res.Err = fmt.Errorf("formatting twice gave different output (err %v)", err)
		return res
	}
	cw := &countingWriter{failAt: -1}
	if err := format.Format(plainWriter{cw}, blocks); err != nil || cw.buf.String() != b1.String() {
		res.Err = fmt.Errorf("formatting to a plain io.Writer differs from a bytes.Buffer (err %v)", err)
		return res
	}
	calls := cw.calls
	if dumpAll(blocks) != before {
		res.Err = fmt.Errorf("Format modified the tree")
		return res
	}
	// failing writer: every k when the healthy run makes few calls, else a spread
	ks := []int{}
	if calls <= 48 {
		for k := 0; k < calls; k++ {
			ks = append(ks, k)
		}
	} else {
		for i := 0; i < 24; i++ {
			ks = append(ks, (i*calls/24+c.I["koff"])%calls)
		}
	}
	for _, k := range ks {
		for _, plain := range []bool{false, true} {
			fw := &countingWriter{failAt: k}
			var err error
			if plain {
				err = format.Format(plainWriter{fw}, blocks)
			} else {
				err = format.Format(fw, blocks)
			}
			if !errors.Is(err, errSink) {
				res.Err = fmt.Errorf("writer failed at call %d of %d (plain=%v) but Format returned %v", k, calls, plain, err)
				return res
			}
			if fw.afterFail > 0 {
				res.Err = fmt.Errorf("writer failed at call %d of %d (plain=%v) and was written to %d more times", k, calls, plain, fw.afterFail)
				return res
			}
			if !strings.HasPrefix(b1.String(), fw.buf.String()) {
				res.Err = fmt.Errorf("writer failed at call %d: what was written before is not a prefix of the healthy output", k)
				return res
			}
		}
	}
	harness.Label("total", "writer_faults_enumerated", int64(2*len(ks)))
	res.Nontrivial = calls >= 3
	if calls > 48 {
		res.Labels = append(res.Labels, "faults_sampled")
	} else {
		res.Labels = append(res.Labels, "faults_all_k")
	}
	return res
}

func formatOf(in []byte) (string, error) {
	blocks, _ := cm.Parse(append([]byte(nil), in...))
	var b bytes.Buffer
	err := format.Format(&b, blocks)
	return b.String(), err
}

func normHTML(in []byte, raws []string) (string, string, error) {
	blocks, refs := cm.Parse(append([]byte(nil), in...))
	r := &cm.HTMLRenderer{ReferenceMap: refs}
	var out []byte
	for _, b := range blocks {
		out = r.AppendBlock(out, b)
	}
	n, err := htmlnorm.NormalizeString(cmutil.LF(string(out)), raws)
	return n, string(out), err
}

// second clause
func propRoundTrip(c harness.Case) harness.Result {
	var res harness.Result
	for _, l := range strings.Split(c.S["labels"], ",") {
		if l != "" {
			res.Labels = append(res.Labels, l)
		}
	}
	res.Nontrivial = c.I["nontrivial"] == 1
	var raws []string
	if r := c.S["raws"]; r != "" {
		raws = strings.Split(r, "\x00")
	}
	d := c.In
	f1, err := formatOf(d)
	if err != nil {
		res.Err = fmt.Errorf("Format returned %v", err)
		return res
	}
	h0, raw0, err0 := normHTML(d, raws)
	h1, raw1, err1 := normHTML([]byte(f1), raws)
	if err0 != nil {
		harness.Inconclusive("canonical document renders to untokenizable HTML: %v", err0)
		return res
	}
	if err1 != nil || h0 != h1 {
		res.Err = fmt.Errorf("the formatted text renders differently\n source:    %q\n formatted: %q\n HTML of source:    %q\n HTML of formatted: %q", d, f1, raw0, raw1)
		return res
	}
	f2, err := formatOf([]byte(f1))
	if err != nil || f2 != f1 {
		res.Err = fmt.Errorf("formatting is not idempotent\n source:    %q\n formatted: %q\n again:     %q", d, f1, f2)
	}
	return res
}

// Canonical-style documents over the supported construct set (DESIGN.md C20).
var canonRestrict = model.Restrict{}

func genCanonical(sz model.Size) func(t *rapid.T) harness.Case {
	return func(t *rapid.T) harness.Case {
		g := &model.Gen{C: model.RapidChooser{T: t}, Sz: sz, R: canonRestrict}
		doc := g.Doc()
		// the canonical style leaves free what the formatter copies through from
		// the source: the bullet character, the ordered-list delimiter and the
		// emphasis character
		ser := &model.Ser{C: model.PinnedExcept{T: t, Free: map[string]bool{"bullet": true, "delim": true, "emchar": true}}, St: model.Style{Canonical: true}}
		md := ser.Serialize(doc)
		c := harness.Case{In: []byte(md)}
		c.SetS("raws", strings.Join(model.RawStrings(doc), "\x00"))
		f := model.Describe(doc)
		var labels []string
		for k := range f.Kinds {
			labels = append(labels, k)
		}
		fenceLike := false
		for _, l := range strings.Split(md, "\n") {
			t := strings.TrimLeft(l, " >")
			if strings.HasPrefix(t, "```") || strings.HasPrefix(t, "~~~") {
				fenceLike = true
			}
		}
		if f.Depth >= 2 || f.LooseLists > 0 || f.RefUses > 0 || (fenceLike && f.Kinds[model.Fenced]+f.Kinds[model.Indented] > 0) {
			c.SetI("nontrivial", 1)
		}
		c.SetS("labels", strings.Join(labels, ","))
		return c
	}
}

// nestedFirstLists: chains of lists in which each list is the first block of
// the first item of the list around it, with every combination of four marker
// kinds per level, to a depth of five, around each of seven innermost
// contents (an empty item among them). The source puts each marker on a line
// of its own (an item that begins with a blank line), which is unambiguous
// whatever the markers are; the formatter has to decide which of them may
// share a line ("- - -" would be a thematic break) and must arrive at a fixed
// point that renders the same.
func nestedFirstLists(t *testing.T, plan harness.Plan) {
	const name = "nested_first_lists"
	markers := []string{"-", "*", "+", "1."}
	inner := []string{"", "a", "***", "---", "# h", "> q", "```\nc\n```"}
	cfg := harness.Cfg()
	shards := 1
	if cfg.Tier == "thorough" {
		shards = 16
	}
	n := 0
	for depth := 1; depth <= 5; depth++ {
		total := 1
		for i := 0; i < depth; i++ {
			total *= len(markers)
		}
		for k := 0; k < total; k++ {
			for _, in := range inner {
				n++
				if n%shards != cfg.Shard%shards {
					continue
				}
				var sb strings.Builder
				indent, x := "", k
				for i := 0; i < depth; i++ {
					m := markers[x%len(markers)]
					x /= len(markers)
					last := i == depth-1
					if last && in != "" && !strings.HasPrefix(in, "---") && !strings.HasPrefix(in, "***") {
						// the innermost content follows its marker on the same line
						sb.WriteString(indent + m + " " + strings.ReplaceAll(in, "\n", "\n"+indent+strings.Repeat(" ", len(m)+1)) + "\n")
					} else {
						sb.WriteString(indent + m + "\n")
						if last && in != "" {
							sb.WriteString(indent + strings.Repeat(" ", len(m)+1) + in + "\n")
						}
					}
					indent += strings.Repeat(" ", len(m)+1)
				}
				c := harness.Case{In: []byte(sb.String())}
				c.SetI("nontrivial", 1)
				res := propRoundTrip(c)
				harness.Count(name, &c, true, fmt.Sprintf("depth_%d", depth))
				if res.Err != nil && harness.Fail(t, plan, name, c, res.Err) {
					return
				}
			}
		}
	}
	harness.SetExhaustive(name, fmt.Sprintf("%d documents: chains of 1-5 nested first-position lists x 4 marker kinds per level x 7 innermost contents", n))
}

func TestProperty(t *testing.T) {
	plan := plan()
	plan.Checks = append(plan.Checks, harness.Check{Name: "nested_first_lists", Prop: propRoundTrip, Rule: "enumerated: chains of one to five lists, each the first block of the first item of the list around it, every combination of the markers - * + 1. per level, around seven innermost contents (nothing, text, two thematic breaks, a heading, a quote, a fenced block), written with every marker on a line of its own; the canonical round trip (same HTML after Format, Format of the result reproduces it)"})
	plan.After = func(t *testing.T) { nestedFirstLists(t, plan) }
	harness.Run(t, plan)
}

func plan() harness.Plan {
	return harness.Plan{Prop: "C20", Suppress: findings.Suppressor("C20"), Checks: []harness.Check{
		{Name: "total", Quick: 30000, Thorough: 400000, Gen: func(t *rapid.T) harness.Case {
			c := harness.Case{In: gen.Doc().Draw(t, "in")}
			c.SetI("koff", rapid.IntRange(0, 1000).Draw(t, "koff"))
			return c
		}, Prop: propTotal,
			Rule: "any G1/G2/G3 byte string: Format on a bytes.Buffer returns nil, is deterministic, equals formatting to a plain io.Writer, leaves the tree dump unchanged; then a failing writer (with and without WriteString) at every call index k of the healthy run (all k when <= 48 calls, 24 spread out otherwise): errors.Is(err, sentinel), no call after the failing one, bytes written before are a prefix of the healthy output; non-trivial = the healthy run makes >= 3 writes"},
		{Name: "canonical", Quick: 30000, Thorough: 400000, Gen: genCanonical(model.Small), Prop: propRoundTrip,
			Rule: "canonical-style documents (G4 with every serializer choice pinned except the marker characters the formatter copies through: bullet, ordered delimiter, emphasis character; supported construct set and restrictions r4, r5 of DESIGN.md; everything else unrestricted: multi-line inline constructs in containers, tight items with several blocks, empty items, titles, text, destinations): HTML(Parse(Format(Parse(d)))) equals HTML(Parse(d)) in the O3 form, and formatting the result again reproduces it byte for byte; non-trivial = container depth >= 2, a loose list, a reference link, or a code block with fence-like lines"},
		{Name: "canonical_large", Quick: 3000, Thorough: 50000, Gen: genCanonical(model.Large), Prop: propRoundTrip, Rule: "larger size bounds: canonical-style round trip"},
	}}
}
