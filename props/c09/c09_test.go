// Package c09 decides property C09: quoting or list-indenting a tab-free
// document nests its blocks unchanged.
package c09

import (
	"bytes"
	"fmt"
	"regexp"
	"strings"
	"testing"

	"pgregory.net/rapid"
	"verif/internal/findings"
	"verif/internal/gen"
	"verif/internal/harness"
	"verif/internal/refrender"
	"verif/internal/tree"
	cm "zombiezen.com/go/commonmark"
)

func TestMain(m *testing.M) { harness.Main(m) }

func noTabs(in []byte) []byte {
	return bytes.ReplaceAll(in, []byte("\t"), []byte(" "))
}

var safeCfg = refrender.Config{IgnoreRaw: true}

// canonBlocks renders blocks (given as nodes of one tree with source src) in
// safe mode with the reference renderer, as if none had a tight parent.
func canonBlocks(src []byte, refs cm.ReferenceMap, blocks []*cm.Block) string {
	var toks []refrender.Tok
	for _, b := range blocks {
		toks = append(toks, refrender.Block(safeCfg, refs, src, b, false)...)
	}
	return refrender.Canon(toks)
}

func canonRoots(roots []*cm.RootBlock, refs cm.ReferenceMap) string {
	var parts []string
	for _, b := range roots {
		if s := canonBlocks(b.Source, refs, []*cm.Block{&b.Block}); s != "" {
			parts = append(parts, s)
		}
	}
	return strings.Join(parts, "\n")
}

func describe(roots []*cm.RootBlock) (bool, []string) {
	var labels []string
	nt := len(roots) >= 2
	for _, b := range roots {
		s := tree.Summarize(b)
		if s.MultiLineInline > 0 {
			nt = true
			labels = append(labels, "multi_line_inline")
		}
		if s.Blocks[cm.LinkReferenceDefinitionKind] > 0 {
			nt = true
			labels = append(labels, "reference_definition")
		}
		if s.Containers > 0 {
			nt = true
			labels = append(labels, "container")
		}
		if s.Blocks[cm.SetextHeadingKind] > 0 {
			labels = append(labels, "setext_heading")
		}
		if s.Blocks[cm.HTMLBlockKind] > 0 {
			labels = append(labels, "html_block")
		}
	}
	if len(roots) >= 2 {
		labels = append(labels, "blocks>=2")
	}
	return nt, labels
}

// quote law
func propQuote(c harness.Case) harness.Result {
	d := noTabs(c.In)
	roots, refs := cm.Parse(append([]byte(nil), d...))
	nt, labels := describe(roots)
	res := harness.Result{Nontrivial: nt, Labels: labels}
	// a block quote marker is 0-3 spaces, '>' and an optional space; the space
	// may only be left out where the line does not itself begin with a space
	// (the marker would take that one as its own)
	ind := strings.Repeat(" ", c.I["indent"]%4)
	var q []byte
	lines := gen.SplitLines(d)
	for i, l := range lines {
		q = append(q, ind...)
		q = append(q, '>')
		if c.I["nospace"] == 0 || len(l) == 0 || l[0] == ' ' || (c.I["nospace"] == 2 && i%2 == 0) {
			q = append(q, ' ')
		}
		q = append(q, l...)
	}
	qroots, qrefs := cm.Parse(append([]byte(nil), q...))
	if len(lines) == 0 {
		if len(qroots) != 0 {
			res.Err = fmt.Errorf("empty document quoted gives %d blocks", len(qroots))
		}
		return res
	}
	if len(qroots) != 1 || qroots[0].Kind() != cm.BlockQuoteKind {
		res.Err = fmt.Errorf("quoting every line gives %d root blocks (%s), want a single block quote\n D: %q\n Q(D): %q", len(qroots), kinds(qroots), d, q)
		return res
	}
	qb := qroots[0]
	var kids []*cm.Block
	for i := 0; i < qb.ChildCount(); i++ {
		kids = append(kids, qb.Child(i).Block())
	}
	got := canonBlocks(qb.Source, qrefs, kids)
	want := canonRoots(roots, refs)
	if got != want {
		res.Err = fmt.Errorf("the block quote's contents differ from the blocks of D\n D: %q\n Q(D): %q\n blocks of D:\n%s\n contents of the quote:\n%s", d, q, indent(want), indent(got))
	}
	return res
}

func kinds(roots []*cm.RootBlock) string {
	var k []string
	for _, b := range roots {
		k = append(k, b.Kind().String())
	}
	return strings.Join(k, ",")
}

func indent(s string) string { return "    " + strings.ReplaceAll(s, "\n", "\n    ") }

var thematic = regexp.MustCompile(`^ {0,3}([-_*])( *[-_*]){2,} *(\r\n|\n|\r)?$`)

func isThematic(line []byte) bool {
	m := thematic.FindSubmatch(line)
	if m == nil {
		return false
	}
	ch := m[1][0]
	for _, c := range line {
		if c == '-' || c == '_' || c == '*' {
			if c != ch {
				return false
			}
		}
	}
	return true
}

func blankLine(l []byte) bool {
	for _, c := range l {
		if c != ' ' && c != '\n' && c != '\r' {
			return false
		}
	}
	return true
}

// list law
func propList(c harness.Case) harness.Result {
	d := noTabs(c.In)
	res := harness.Result{}
	lines := gen.SplitLines(d)
	// precondition of the law: D starts with a non-space character and has no
	// whitespace-only line other than empty ones
	if len(d) == 0 || d[0] == ' ' || d[0] == '\n' || d[0] == '\r' {
		res.Labels = []string{"outside_domain:starts_with_space"}
		return res
	}
	for _, l := range lines {
		if blankLine(l) && len(bytes.TrimRight(l, "\r\n")) > 0 {
			res.Labels = []string{"outside_domain:whitespace_only_line"}
			return res
		}
	}
	marker := c.S["marker"]
	if marker == "" {
		marker = "-"
	}
	n := 1 + c.I["n"]%4
	w := len(marker)
	var l []byte
	for i, ln := range lines {
		switch {
		case i == 0:
			l = append(l, marker...)
			l = append(l, strings.Repeat(" ", n)...)
		case blankLine(ln):
			if c.I["indentblank"] == 1 {
				l = append(l, strings.Repeat(" ", w+n)...)
			}
		default:
			l = append(l, strings.Repeat(" ", w+n)...)
		}
		l = append(l, ln...)
	}
	if first := gen.SplitLines(l)[0]; isThematic(first) {
		res.Labels = []string{"skipped:first_line_is_thematic_break"}
		return res
	}
	roots, refs := cm.Parse(append([]byte(nil), d...))
	nt, labels := describe(roots)
	res.Nontrivial, res.Labels = nt, labels
	lroots, lrefs := cm.Parse(append([]byte(nil), l...))
	if len(lroots) != 1 || lroots[0].Kind() != cm.ListKind || lroots[0].ChildCount() != 1 {
		items := -1
		if len(lroots) == 1 {
			items = lroots[0].ChildCount()
		}
		res.Err = fmt.Errorf("list-indenting gives %d root blocks (%s; items %d), want a single one-item list\n D: %q\n L(D): %q", len(lroots), kinds(lroots), items, d, l)
		return res
	}
	item := lroots[0].Child(0).Block()
	var kids []*cm.Block
	for i := 0; i < item.ChildCount(); i++ {
		if k := item.Child(i).Block(); k.Kind() != cm.ListMarkerKind {
			kids = append(kids, k)
		}
	}
	got := canonBlocks(lroots[0].Source, lrefs, kids)
	want := canonRoots(roots, refs)
	if got != want {
		res.Err = fmt.Errorf("the list item's contents differ from the blocks of D (marker %q, N=%d)\n D: %q\n L(D): %q\n blocks of D:\n%s\n contents of the item:\n%s", marker, n, d, l, indent(want), indent(got))
		return res
	}
	// The blocks are in the item as they are in D, so the list is loose exactly
	// when the item "directly contains two block-level elements with a blank
	// line between them": when two consecutive root blocks of D have a blank
	// line between them. A blank line inside a block (an empty quote line, a
	// blank line between the items of a nested list) is not between two blocks
	// of the item. (Documents with a reference definition at the top level are
	// left out: whether a definition counts as a block here is not fixed.)
	hasDef := false
	for _, r := range roots {
		if r.Kind() == cm.LinkReferenceDefinitionKind {
			hasDef = true
		}
	}
	if !hasDef && len(roots) > 0 {
		blankBetween, ambiguous := false, false
		for i := 1; i < len(roots); i++ {
			// (a root block's range may take in the blank lines that follow
			// it - a list's does - so the blank lines are looked for from the
			// end of the block's last non-blank line)
			end := roots[i-1].EndOffset
			for end > roots[i-1].StartOffset {
				ls := end - 1 // start of the last line of d[:end]
				if ls >= 0 && d[ls] == '\n' {
					ls--
				}
				if ls >= 0 && d[ls] == '\r' {
					ls--
				}
				for ls >= 0 && d[ls] != '\n' && d[ls] != '\r' {
					ls--
				}
				ls++
				if !blankLine(d[ls:end]) {
					break
				}
				end = ls
			}
			if end < roots[i-1].EndOffset {
				// blank lines at the end of the block's range. If the innermost last
				// block is an HTML block that was still open (kinds 1-5 run on to the
				// end of their container), they are its content, and whether a blank
				// line that ends a block's content stands between two blocks is not
				// fixed by the spec's wording
				b := &roots[i-1].Block
				for b.ChildCount() > 0 {
					last := b.Child(b.ChildCount() - 1).Block()
					if last == nil {
						break
					}
					b = last
				}
				if b.Kind() == cm.HTMLBlockKind || b.Kind() == cm.FencedCodeBlockKind {
					// (the same for a fenced code block that was never closed: the
					// blank lines are code)
					ambiguous = true
				}
			}
			if bytes.ContainsAny(d[end:roots[i].StartOffset], "\r\n") {
				blankBetween = true
			}
		}
		if ambiguous {
			res.Labels = append(res.Labels, "tightness_not_checked:open_html_or_code_block_before_blank_line")
		} else if lroots[0].IsTightList() == blankBetween {
			res.Err = fmt.Errorf("the one-item list is tight=%v, but the blocks of D have a blank line between them: %v (marker %q, N=%d)\n D: %q\n L(D): %q", lroots[0].IsTightList(), blankBetween, marker, n, d, l)
		}
		res.Labels = append(res.Labels, fmt.Sprintf("loose_expected=%v", blankBetween))
	}
	return res
}

var markers = []string{"-", "+", "*", "1.", "2)", "0.", "10.", "007)", "123456789.", "9)"}

func genCase(g *rapid.Generator[[]byte]) func(t *rapid.T) harness.Case {
	return func(t *rapid.T) harness.Case {
		c := harness.Case{In: g.Draw(t, "in")}
		c.SetI("indent", rapid.IntRange(0, 3).Draw(t, "indent"))
		c.SetS("marker", markers[rapid.IntRange(0, len(markers)-1).Draw(t, "marker")])
		c.SetI("n", rapid.IntRange(0, 3).Draw(t, "n"))
		c.SetI("indentblank", rapid.IntRange(0, 1).Draw(t, "ib"))
		c.SetI("nospace", rapid.IntRange(0, 2).Draw(t, "nospace"))
		return c
	}
}

// genListDoc biases towards the list law's domain: first byte not a space.
func genListDoc(g *rapid.Generator[[]byte]) *rapid.Generator[[]byte] {
	return rapid.Custom(func(t *rapid.T) []byte {
		d := g.Draw(t, "d")
		d = bytes.TrimLeft(d, " \t\r\n")
		return d
	})
}

const ruleQ = "D = G1/G2/G3 input with tabs replaced by spaces; every line (split on LF, CR, CRLF) prefixed with 0-3 spaces + '>' + the optional space (left out on all / every other line that does not itself begin with a space); oracle = Parse(Q(D)) is a single BlockQuote (no block for the empty document) whose children, rendered by the reference renderer in safe mode, equal the root blocks of D rendered the same way (canonical form: newline runs next to block tags dropped); non-trivial = D has >= 2 root blocks, a multi-line inline construct, a reference definition or a container"
const ruleL = "D as above with leading white space removed; outside the law's domain (counted, not checked) when it starts with a space or has a non-empty whitespace-only line; marker from - + * and 1-9 digits with . or ), N in 1..4, interior empty lines left empty or indented; skipped when the first line of L(D) is a thematic break; oracle = a single one-item List whose children after the marker equal the root blocks of D under the same rendering; non-trivial as for the quote law"

func TestProperty(t *testing.T) {
	harness.Run(t, harness.Plan{Prop: "C09", Suppress: findings.Suppressor("C09"), Checks: []harness.Check{
		{Name: "quote", Quick: 50000, Thorough: 800000, Gen: genCase(gen.Doc()), Prop: propQuote, Rule: ruleQ},
		{Name: "quote_lines", Quick: 30000, Thorough: 400000, Gen: genCase(gen.Lines()), Prop: propQuote, Rule: "G2 only: " + ruleQ},
		{Name: "list", Quick: 50000, Thorough: 800000, Gen: genCase(genListDoc(gen.Doc())), Prop: propList, Rule: ruleL},
		{Name: "quote_refs", Quick: 20000, Thorough: 300000, Gen: genCase(gen.RefsDoc()), Prop: propQuote, Rule: "D = competing reference definitions and uses of labels from a tiny pool, each wrapped in 0-2 containers (so that, once quoted, all of them sit at different depths of one root block and source order decides): " + ruleQ},
		{Name: "list_refs", Quick: 20000, Thorough: 300000, Gen: genCase(gen.RefsDoc()), Prop: propList, Rule: "D as for quote_refs: " + ruleL},
		{Name: "quote_long_labels", Quick: 2500, Thorough: 40000, Gen: genCase(gen.LongLabelDoc()), Prop: propQuote, Rule: "D = a definition and a use of a label of 985-1003 characters written on 1-5 lines (the limit is 999 characters between the brackets, whatever container prefixes the lines carry): " + ruleQ},
		{Name: "list_long_labels", Quick: 2500, Thorough: 40000, Gen: genCase(gen.LongLabelDoc()), Prop: propList, Rule: "D as for quote_long_labels: " + ruleL},
		{Name: "quote_deep", Quick: 1500, Thorough: 60000, Gen: genCase(gen.Deep()), Prop: propQuote, Rule: "D = documents with up to 48 nested containers, 40 nested inlines or 150 siblings (gen.Deep), so that wrapping adds one level at every depth: " + ruleQ},
		{Name: "list_deep", Quick: 1500, Thorough: 60000, Gen: genCase(genListDoc(gen.Deep())), Prop: propList, Rule: "D as for quote_deep: " + ruleL},
		{Name: "list_lines", Quick: 30000, Thorough: 400000, Gen: genCase(genListDoc(gen.Lines())), Prop: propList, Rule: "G2 only: " + ruleL},
	}})
}
