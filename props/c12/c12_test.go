// Package c12 decides property C12: references resolve by normalized label,
// the first definition wins, and the returned map is closed and normalized.
package c12

import (
	"bytes"
	"fmt"
	"reflect"
	"regexp"
	"strings"
	"testing"
	"unicode"
	"unicode/utf8"

	"golang.org/x/text/cases"
	"pgregory.net/rapid"
	"verif/internal/findings"
	"verif/internal/gen"
	"verif/internal/harness"
	cm "zombiezen.com/go/commonmark"
)

func TestMain(m *testing.M) { harness.Main(m) }

// foldTable is a hand-written full case folding table for the alphabet the
// label generator uses (CaseFolding.txt, status C and F).
var foldTable = map[rune]string{
	'ß': "ss", 'ẞ': "ss", 'ſ': "s", 'K': "k", 'Σ': "σ", 'σ': "σ", 'ς': "σ", 'İ': "i̇", 'ı': "ı",
	'ﬁ': "fi", 'Ǆ': "ǆ", 'ǅ': "ǆ", 'ǆ': "ǆ", 'µ': "μ", 'μ': "μ", 'Μ': "μ", 'é': "é", 'É': "é", 'k': "k", 'K': "k",
}

func foldRune(r rune) string {
	if s, ok := foldTable[r]; ok {
		return s
	}
	if r >= 'A' && r <= 'Z' {
		return string(r + 32)
	}
	return string(r)
}

// refNorm is the reference label normaliser: collapse runs of space, tab, LF,
// CR to one space, trim those four characters only, full case fold.
func refNorm(label string) string {
	var sb strings.Builder
	ws := false
	started := false
	for _, r := range label {
		if r == ' ' || r == '\t' || r == '\n' || r == '\r' {
			ws = true
			continue
		}
		if ws && started {
			sb.WriteByte(' ')
		}
		ws = false
		started = true
		sb.WriteString(foldRune(r))
	}
	return sb.String()
}

// units: spellings grouped by what they fold to.
var units = [][]string{
	{"a", "A"}, {"b", "B"}, {"s", "S", "ſ"}, {"ss", "ß", "ẞ", "SS", "sS", "ſs", "sſ"}, {"k", "K", "K"}, {"σ", "Σ", "ς"},
	{"i̇", "İ"}, {"i", "I"}, {"ı"}, {"fi", "ﬁ", "FI", "Fi"}, {"ǆ", "Ǆ", "ǅ"}, {"μ", "µ", "Μ"}, {"é", "É"}, {"1"}, {"9"}, {"z", "Z"},
	{"\\]"}, {"\\["}, {"\\\\"}, {"\\!"}, {"\\"}, {"\\"}, {"!"}, {"*"}, {" "}, {" "}, {"&amp;"}, {"&"},
}

var wsRuns = []string{" ", "  ", "\t", " \t ", "\n", " \n", "\n ", "\r\n", "\r"}

type labelSpec struct {
	units []int    // indices into units
	seps  []string // separator before unit i ("" = none); seps[0] is leading white space
	trail string
}

// spell renders a label from unit indices with drawn spellings and separators.
// cont is what every line after a line ending starts with (container prefix).
func drawLabel(t *rapid.T, base []int, respell bool, tag string) string {
	var sb strings.Builder
	// spellings first, so that a line ending is only placed before a spelling
	// that starts with a letter (a continuation line must not start a block)
	var sp []string
	for _, u := range base {
		k := 0
		if respell {
			k = rapid.IntRange(0, len(units[u])-1).Draw(t, tag+"sp")
		}
		sp = append(sp, units[u][k])
	}
	letterFirst := func(x string) bool {
		for _, r := range x {
			return unicode.IsLetter(r)
		}
		return false
	}
	lead := []string{"", "", "", " ", "  ", "\t", "\n", " \n"}[rapid.IntRange(0, 7).Draw(t, tag+"lead")]
	if strings.Contains(lead, "\n") && !(len(sp) > 0 && letterFirst(sp[0])) {
		lead = " "
	}
	sb.WriteString(lead)
	for i, x := range sp {
		if i > 0 && rapid.IntRange(0, 2).Draw(t, tag+"sepq") == 0 {
			sep := wsRuns[rapid.IntRange(0, len(wsRuns)-1).Draw(t, tag+"sep")]
			if strings.ContainsAny(sep, "\r\n") && !letterFirst(x) {
				sep = " "
			}
			if strings.HasSuffix(sep, " ") && strings.ContainsAny(sep, "\r\n") {
				sep = strings.TrimRight(sep, " ") // no indentation on continuation lines inside labels
			}
			sb.WriteString(sep)
		}
		sb.WriteString(x)
	}
	sb.WriteString([]string{"", "", "", " ", "\t", "  ", "\n"}[rapid.IntRange(0, 6).Draw(t, tag+"trail")])
	return sb.String()
}

// fixLines makes every line after a line ending inside a label start with a
// letter-like character so that it cannot start a block, and re-applies the
// container prefix.
func inContainer(text, prefix, cont string) string {
	lines := strings.SplitAfter(text, "\n")
	var sb strings.Builder
	for i, l := range lines {
		if i == 0 {
			sb.WriteString(prefix)
		} else {
			sb.WriteString(cont)
		}
		sb.WriteString(l)
	}
	return sb.String()
}

var startsBlock = regexp.MustCompile(`(^|[\r\n])[ \t]*([-+*>#=~` + "`" + `]|[0-9]+[.)]|<|$|[\r\n])`)

// labelOK: a label usable in both a definition and a use without changing the
// block structure: has a non-white-space character, no line starts with
// something that could open a block or is blank.
func labelOK(l string) bool {
	if strings.TrimSpace(strings.Map(func(r rune) rune {
		if r == ' ' || r == ' ' {
			return 'x'
		}
		return r
	}, l)) == "" {
		return false
	}
	if len(l) > 300 {
		return false
	}
	// a literal backslash (one that is not followed by ASCII punctuation) is
	// fine anywhere, also as the last character before trailing white space;
	// what must not happen is an unescaped bracket, or a backslash that would
	// escape the closing bracket
	for i := 0; i < len(l); i++ {
		switch l[i] {
		case '\\':
			if i+1 >= len(l) {
				return false
			}
			if strings.IndexByte("!\"#$%&'()*+,-./:;<=>?@[\\]^_`{|}~", l[i+1]) >= 0 {
				i++
			}
		case '[', ']':
			return false
		}
	}
	lf := strings.ReplaceAll(strings.ReplaceAll(l, "\r\n", "\n"), "\r", "\n")
	lines := strings.Split(lf, "\n")
	for i, ln := range lines {
		t := strings.TrimLeft(ln, " \t")
		if i == 0 {
			continue
		}
		if t == "" {
			// only the last line may be empty: the closing bracket follows
			if i == len(lines)-1 && ln == "" {
				continue
			}
			return false
		}
		r := []rune(t)[0]
		if !(unicode.IsLetter(r)) {
			return false
		}
	}
	// a line ending directly followed by another line ending = blank line
	if strings.Contains(l, "\n\n") || strings.Contains(l, "\r\r") || strings.Contains(l, "\n\r") || strings.Contains(l, "\r\n\r") {
		return false
	}
	if strings.Contains(strings.ReplaceAll(l, "\r\n", "\n"), "\n \n") {
		return false
	}
	return true
}

type def struct {
	label string
	dest  string
	title string
	cont  int  // 0 top level, 1 quote, 2 list, 3 list in quote, 4 quote in quote
	join  bool // share the root block with the next definition when both are in a quote
	spell int  // 0: all on one line; 1: destination on the next line; 2: title on the next line; 3: both; 4: destination in <>; 5: title in '' on the next line
}

func buildDoc(defs []def, use string, useForm, useKind int, usePos int, useCont int, usePlace int, noFinalNL bool) string {
	var parts []string
	renderDef := func(d def) string {
		// the spec allows white space including one line ending after the colon
		// and between destination and title
		sep1, sep2, dest, q := " ", " ", d.dest, "\""
		switch d.spell {
		case 1:
			sep1 = "\n"
		case 2:
			sep2 = "\n"
		case 3:
			sep1, sep2 = " \n", "\n "
		case 4:
			dest = "<" + dest + ">"
			sep1 = "   "
		case 5:
			sep2, q = " \n", "'"
		}
		if d.dest == "" {
			dest = "<>"
		}
		s := "[" + d.label + "]:" + sep1 + dest
		if d.title != "" {
			s += sep2 + q + d.title + q
		}
		switch d.cont {
		case 1:
			return inContainer(s, "> ", "> ")
		case 2:
			return inContainer(s, "- ", "  ")
		case 3: // list item inside a quote
			return inContainer(s, "> - ", ">   ")
		case 4: // quote inside a quote
			return inContainer(s, "> > ", "> > ")
		case 5: // very deep: 34 or 40 nested quotes, 18 nested list items
			k := 34 + 6*(len(d.label)%2)
			return inContainer(s, strings.Repeat("> ", k), strings.Repeat("> ", k))
		case 6:
			return inContainer(s, strings.Repeat("- ", 18), strings.Repeat("  ", 18))
		}
		return s
	}
	inQuote := func(d def) bool { return d.cont == 1 || d.cont == 3 || d.cont == 4 }
	var u string
	switch useForm {
	case 0:
		u = "[" + use + "]"
	case 1:
		u = "[" + use + "][]"
	case 2:
		u = "[zzz][" + use + "]"
	default:
		// a full reference may have empty link text
		u = "[][" + use + "]"
	}
	if useKind == 1 {
		u = "!" + u
	}
	// the use sits between words, ends its line, or is the content of a heading
	switch usePlace {
	case 1:
		u = "q " + u
	case 2:
		u = "# " + u
	case 3:
		u = "## q " + u + " ##"
	case 4:
		// directly followed by brackets that are not a link label (a label holds
		// no unescaped bracket): "not followed by [] or a link label", so a
		// shortcut reference stays one; '?' is in no label of the alphabet
		u = "q " + u + "[w? [w?]] q"
	case 5:
		u = "q " + u + "[w?[w?] q"
	default:
		u = "q " + u + " q"
	}
	// the use may sit in a container too (its label may span lines there)
	switch useCont {
	case 1:
		u = inContainer(u, "> ", "> ")
	case 2:
		u = inContainer(u, "- ", "  ")
	case 3:
		u = inContainer(u, "> - ", ">   ")
	case 4:
		u = inContainer(u, ">", ">")
	}
	// consecutive definitions that both sit in a quote may share one root block
	// (joined by an empty quote line), so that definitions at different depths
	// of the same root block compete
	seps := []string{}
	for i, d := range defs {
		if i == usePos {
			parts = append(parts, u)
			seps = append(seps, "\n\n")
		}
		parts = append(parts, renderDef(d))
		sep := "\n\n"
		if i+1 < len(defs) && i+1 != usePos && d.join && inQuote(d) && inQuote(defs[i+1]) {
			sep = "\n>\n"
		}
		seps = append(seps, sep)
	}
	if usePos >= len(defs) {
		parts = append(parts, u)
		seps = append(seps, "\n")
	}
	var sb strings.Builder
	for i, p := range parts {
		sb.WriteString(p)
		if i < len(parts)-1 {
			sb.WriteString(seps[i])
		}
	}
	if !noFinalNL {
		sb.WriteString("\n")
	}
	return sb.String()
}

var linkRE = regexp.MustCompile(`<(a href|img src)="(/d[0-9]|)"( title="(t[0-9])")?`)

func propResolve(c harness.Case) harness.Result {
	n := c.I["ndefs"]
	var defs []def
	for i := 0; i < n; i++ {
		d := def{label: c.S[fmt.Sprintf("label%d", i)], dest: fmt.Sprintf("/d%d", i), cont: c.I[fmt.Sprintf("cont%d", i)]}
		if c.I[fmt.Sprintf("title%d", i)] == 1 {
			d.title = fmt.Sprintf("t%d", i)
		}
		if c.I[fmt.Sprintf("empty%d", i)] == 1 {
			// a definition may have an empty destination (written <>); without a
			// title it defines the label all the same, as the zero-valued entry
			d.dest = ""
		}
		d.join = c.I[fmt.Sprintf("join%d", i)] == 1
		d.spell = c.I[fmt.Sprintf("spell%d", i)]
		defs = append(defs, d)
	}
	use := c.S["use"]
	var res harness.Result
	if !labelOK(use) {
		res.Labels = []string{"skipped:label_not_usable"}
		return res
	}
	for _, d := range defs {
		if !labelOK(d.label) || refNorm(d.label) == "zzz" {
			res.Labels = []string{"skipped:label_not_usable"}
			return res
		}
	}
	place := c.I["place"]
	if strings.ContainsAny(use, "\r\n") && (place == 2 || place == 3) {
		place = 0 // a label that spans lines cannot sit in an ATX heading
	}
	doc := buildDoc(defs, use, c.I["form"], c.I["kind"], c.I["pos"], c.I["usecont"], place, c.I["nofinalnl"] == 1)
	// the document's own line endings (those the generator wrote as LF) in one of the three styles
	switch c.I["eol"] {
	case 1:
		doc = lfTo(doc, "\r\n")
	case 2:
		doc = lfTo(doc, "\r")
	}
	want := -1
	un := refNorm(use)
	competing := 0
	for i, d := range defs {
		if refNorm(d.label) == un {
			competing++
			if want < 0 {
				want = i
			}
		}
	}
	blocks, refs := cm.Parse([]byte(doc))
	var buf bytes.Buffer
	cm.RenderHTML(&buf, blocks, refs)
	out := buf.String()
	m := linkRE.FindStringSubmatch(out)
	if want >= 0 {
		res.Labels = append(res.Labels, "resolves")
		if use != defs[want].label {
			res.Nontrivial = true
			res.Labels = append(res.Labels, "equal_after_normalisation_only")
		}
	} else {
		res.Labels = append(res.Labels, "does_not_resolve")
		for _, d := range defs {
			if strings.EqualFold(strings.Join(strings.Fields(d.label), " "), strings.Join(strings.Fields(use), " ")) ||
				strings.TrimSpace(d.label) == strings.TrimSpace(use) {
				res.Nontrivial = true
				res.Labels = append(res.Labels, "near_miss")
			}
		}
	}
	if competing >= 2 {
		res.Nontrivial = true
		res.Labels = append(res.Labels, "competing_definitions")
	}
	switch {
	case want < 0 && m != nil:
		res.Err = fmt.Errorf("label %q (normalised %q) matches no definition (%s) but resolved to %s\n document: %q\n output: %q", use, un, describeDefs(defs), m[2], doc, out)
	case want >= 0 && m == nil:
		res.Err = fmt.Errorf("label %q (normalised %q) matches definition %d %q but did not resolve\n document: %q\n output: %q", use, un, want, defs[want].label, doc, out)
	case want >= 0:
		wd, wt := defs[want].dest, defs[want].title
		if m[2] != wd || m[4] != wt {
			res.Err = fmt.Errorf("label %q must resolve to the first matching definition %d (%s %q) but got %s %q\n document: %q\n output: %q", use, want, wd, wt, m[2], m[4], doc, out)
		}
	}
	return res
}

func describeDefs(defs []def) string {
	var s []string
	for _, d := range defs {
		s = append(s, fmt.Sprintf("%q->%q", d.label, refNorm(d.label)))
	}
	return strings.Join(s, ", ")
}

// lfTo rewrites every LF that is not the second half of a CRLF pair; a CR that
// would come to stand directly before an LF (or the reverse) is left alone so
// that no line ending fuses with its neighbour.
func lfTo(doc, eol string) string {
	var sb strings.Builder
	for i := 0; i < len(doc); i++ {
		if doc[i] == '\n' && !(i > 0 && doc[i-1] == '\r') && !(eol == "\r" && i+1 < len(doc) && doc[i+1] == '\n') {
			sb.WriteString(eol)
		} else {
			sb.WriteByte(doc[i])
		}
	}
	return sb.String()
}

func genResolve(t *rapid.T) harness.Case {
	var c harness.Case
	nb := rapid.IntRange(1, 5).Draw(t, "nunits")
	var base []int
	for i := 0; i < nb; i++ {
		base = append(base, rapid.IntRange(0, len(units)-1).Draw(t, "unit"))
	}
	use := drawLabel(t, base, true, "use")
	n := rapid.IntRange(1, 4).Draw(t, "ndefs")
	c.SetI("ndefs", n)
	for i := 0; i < n; i++ {
		b := append([]int(nil), base...)
		switch rapid.IntRange(0, 5).Draw(t, "edit") {
		case 0: // non-equivalent: change one unit
			b[rapid.IntRange(0, len(b)-1).Draw(t, "ei")] = rapid.IntRange(0, len(units)-1).Draw(t, "eu")
		case 1: // drop a unit
			if len(b) > 1 {
				j := rapid.IntRange(0, len(b)-1).Draw(t, "di")
				b = append(b[:j:j], b[j+1:]...)
			}
		case 2: // insert a unit
			j := rapid.IntRange(0, len(b)).Draw(t, "ii")
			b = append(b[:j:j], append([]int{rapid.IntRange(0, len(units)-1).Draw(t, "iu")}, b[j:]...)...)
		}
		c.SetS(fmt.Sprintf("label%d", i), drawLabel(t, b, true, fmt.Sprintf("d%d", i)))
		c.SetI(fmt.Sprintf("cont%d", i), []int{0, 0, 1, 1, 2, 2, 3, 3, 4, 4, 5, 6}[rapid.IntRange(0, 11).Draw(t, "cont")])
		c.SetI(fmt.Sprintf("join%d", i), rapid.IntRange(0, 1).Draw(t, "join"))
		c.SetI(fmt.Sprintf("title%d", i), rapid.IntRange(0, 1).Draw(t, "title"))
		if rapid.IntRange(0, 5).Draw(t, "empty") == 0 {
			c.SetI(fmt.Sprintf("empty%d", i), 1)
		}
		if rapid.IntRange(0, 2).Draw(t, "respell") == 0 {
			c.SetI(fmt.Sprintf("spell%d", i), rapid.IntRange(1, 5).Draw(t, "spell"))
		}
	}
	if e := rapid.IntRange(0, 5).Draw(t, "eol"); e <= 2 {
		c.SetI("eol", e)
	}
	c.SetS("use", use)
	c.SetI("form", rapid.IntRange(0, 3).Draw(t, "form"))
	c.SetI("place", []int{0, 0, 0, 1, 1, 2, 3, 4, 5}[rapid.IntRange(0, 8).Draw(t, "place")])
	if rapid.IntRange(0, 3).Draw(t, "nofinalnl") == 0 {
		c.SetI("nofinalnl", 1)
	}
	c.SetI("kind", rapid.IntRange(0, 1).Draw(t, "kind"))
	c.SetI("pos", rapid.IntRange(0, n).Draw(t, "pos"))
	c.SetI("usecont", rapid.IntRange(0, 6).Draw(t, "usecont")) // 5, 6: top level
	return c
}

// closure clause over arbitrary inputs
func trustedNorm(k string) string {
	return cases.Fold().String(strings.Join(strings.FieldsFunc(k, func(r rune) bool { return r == ' ' || r == '\t' || r == '\n' || r == '\r' }), " "))
}

func propClosure(c harness.Case) harness.Result {
	blocks, refs := cm.Parse(append([]byte(nil), c.In...))
	var res harness.Result
	fresh := cm.ReferenceMap{}
	nrefs := 0
	for _, b := range blocks {
		fresh.Extract(b.Source, b.AsNode())
		var walk func(n cm.Node)
		walk = func(n cm.Node) {
			if i := n.Inline(); i != nil && (i.Kind() == cm.LinkKind || i.Kind() == cm.ImageKind) {
				if ref := i.LinkReference(); ref != "" {
					nrefs++
					if _, ok := refs[ref]; !ok && res.Err == nil {
						res.Err = fmt.Errorf("%v node refers to %q, which is not a key of the returned reference map %v", i.Kind(), ref, keys(refs))
					}
				}
			}
			// a label node's normalized form is the normalization of the text
			// its children select from Source (Source has U+FFFD where the input
			// had NUL; container prefixes between the lines are in no child)
			if i := n.Inline(); i != nil && i.Kind() == cm.LinkLabelKind && res.Err == nil {
				var sb strings.Builder
				for k := 0; k < i.ChildCount(); k++ {
					ch := i.Child(k)
					if ch.Kind() == cm.IndentKind {
						sb.WriteString(strings.Repeat(" ", ch.IndentWidth()))
					} else if sp := ch.Span(); sp.Start >= 0 && sp.End >= sp.Start && sp.End <= len(b.Source) {
						sb.Write(b.Source[sp.Start:sp.End])
					}
				}
				if want := trustedNorm(sb.String()); utf8.ValidString(sb.String()) && i.LinkReference() != want {
					res.Err = fmt.Errorf("label node with text %q has LinkReference() %q, the normalized form of its text is %q", sb.String(), i.LinkReference(), want)
				}
			}
			for k := 0; k < n.ChildCount(); k++ {
				walk(n.Child(k))
			}
		}
		walk(b.AsNode())
	}
	if res.Err != nil {
		return res
	}
	validSources := true
	for _, b := range blocks {
		if !utf8.Valid(b.Source) {
			validSources = false
		}
	}
	for k := range refs {
		if validSources && !utf8.ValidString(k) {
			res.Err = fmt.Errorf("reference map key %q is not valid UTF-8 although every block's Source is", k)
			return res
		}
		if trustedNorm(k) != k {
			res.Err = fmt.Errorf("reference map key %q is not in normalized form (normalizes to %q)", k, trustedNorm(k))
			return res
		}
		if k == "" || strings.ContainsAny(k, "\t\n\r") || strings.Contains(k, "  ") || k[0] == ' ' || k[len(k)-1] == ' ' || strings.ContainsAny(k, "ABCDEFGHIJKLMNOPQRSTUVWXYZ") {
			res.Err = fmt.Errorf("reference map key %q has upper-case ASCII, edge/double spaces, a tab or a line ending", k)
			return res
		}
	}
	if !reflect.DeepEqual(map[string]cm.LinkDefinition(refs), map[string]cm.LinkDefinition(fresh)) {
		res.Err = fmt.Errorf("the returned map %v differs from extracting the root blocks in order %v", refs, fresh)
	}
	res.Nontrivial = nrefs > 0 || len(refs) > 0
	if nrefs > 0 {
		res.Labels = append(res.Labels, "has_reference_node")
	}
	if len(refs) > 0 {
		res.Labels = append(res.Labels, "has_definition")
	}
	return res
}

var soupLabels = []string{"r", "R", "foo", "Foo", "FOO", " foo ", "foo  bar", "Foo\nBar", "ß", "SS", "ẞ", "a\\]b", "Σ", "ς", "x y", "X\tY", "\u00a0a", "a", "İ", "i̇", "ﬁ", "FI", "*a*", "`c`", "<b>", "&amp;", "\\&", "é", "É", "1", "[", "]", "a[b", "a]b", "", "\x00a\x00", "\x00", "a\x00\x00b\x00c"}
var soupDests = []string{"/u", "</u v>", "/d \"t\"", "/d 't'", "/d (t)", "", "<>", "/u\n\"ti\ntle\"", "/a\\b", "/u\\", "x\"y", "/u \"t\" x"}

// genRefSoup builds reference-heavy documents: definitions and uses over a
// small pool of labels (so that matches, near misses and duplicates are
// common), in and out of containers.
func genRefSoup(t *rapid.T) []byte {
	n := rapid.IntRange(1, 7).Draw(t, "n")
	var sb strings.Builder
	for i := 0; i < n; i++ {
		l := soupLabels[rapid.IntRange(0, len(soupLabels)-1).Draw(t, "l")]
		var piece string
		switch rapid.IntRange(0, 7).Draw(t, "k") {
		case 0, 1, 2:
			piece = "[" + l + "]: " + soupDests[rapid.IntRange(0, len(soupDests)-1).Draw(t, "d")]
		case 3:
			piece = "[" + l + "]"
		case 4:
			piece = "[" + l + "][]"
		case 5:
			piece = "[t][" + l + "]"
		case 6:
			piece = "![" + l + "]"
		default:
			piece = gen.Inl[rapid.IntRange(0, len(gen.Inl)-1).Draw(t, "inl")]
		}
		switch rapid.IntRange(0, 5).Draw(t, "c") {
		case 0:
			piece = "> " + strings.ReplaceAll(piece, "\n", "\n> ")
		case 1:
			piece = "- " + strings.ReplaceAll(piece, "\n", "\n  ")
		}
		sb.WriteString(piece)
		sb.WriteString([]string{"\n\n", "\n", " ", "\n\n"}[rapid.IntRange(0, 3).Draw(t, "sep")])
	}
	return []byte(sb.String())
}

func keys(m cm.ReferenceMap) []string {
	var k []string
	for s := range m {
		k = append(k, s)
	}
	return k
}

func TestFoldTable(t *testing.T) {
	for r, want := range foldTable {
		if got := cases.Fold().String(string(r)); got != want {
			t.Errorf("fold table entry %q: table %q, x/text %q", r, want, got)
		}
	}
}

// ---- labels next to the 999-character limit. "A link label can have at most
// 999 characters inside the square brackets", and a character is a code point:
// container prefixes on the label's continuation lines, the bytes of multi-byte
// characters and the way the label is used (shortcut, collapsed, full) do not
// count. The definition and the use resolve iff the label has at most 999
// characters.
// genBusyLabel: a label (well inside the length limit) made of many words that
// are delimiter runs, code spans or emphasis when read as link text: the
// brackets of a shortcut, collapsed or image reference then have dozens of
// entries of the delimiter stack between them. It is a label all the same.
func genBusyLabel(t *rapid.T) harness.Case {
	word := []string{"*a*", "_b_", "**c**", "x*", "*y", "`z`", "a_b", "***"}[rapid.IntRange(0, 7).Draw(t, "word")]
	n := rapid.IntRange(5, 120).Draw(t, "words")
	for n*(len(word)+1) > 990 {
		n--
	}
	l := strings.TrimSpace(strings.Repeat(word+" ", n))
	use := []string{"[" + l + "]", "[" + l + "][]", "[x][" + l + "]", "![" + l + "]", "![" + l + "][]"}[rapid.IntRange(0, 4).Draw(t, "use")]
	doc := "w " + use + " w\n\n[" + l + "]: /u\n"
	if rapid.Bool().Draw(t, "deffirst") {
		doc = "[" + l + "]: /u\n\nw " + use + " w\n"
	}
	c := harness.Case{In: []byte(doc)}
	c.SetI("chars", len(l))
	c.SetI("container", 0)
	c.SetS("unit", word)
	return c
}

func genLongLabel(t *rapid.T) harness.Case {
	n := rapid.IntRange(985, 1003).Draw(t, "labellen")
	if rapid.IntRange(0, 2).Draw(t, "exact") > 0 {
		n = []int{998, 999, 1000, 1001}[rapid.IntRange(0, 3).Draw(t, "exactlen")]
	}
	unit := []string{"a", "a", "é", "猫", "\U00010100"}[rapid.IntRange(0, 4).Draw(t, "unit")]
	lab := make([]string, n)
	for i := range lab {
		lab[i] = unit
		if unit != "a" && i%3 == 1 {
			lab[i] = "b"
		}
	}
	lines := rapid.IntRange(1, 40).Draw(t, "labellines")
	for i := 1; i < lines; i++ {
		p := rapid.IntRange(2, n-3).Draw(t, "breakpos")
		if lab[p-1] == "\n" || lab[p] == "\n" || lab[p+1] == "\n" {
			continue
		}
		lab[p] = "\n"
	}
	l := strings.Join(lab, "")
	use := []string{"[" + l + "]", "[" + l + "][]", "[x][" + l + "]", "![" + l + "]"}[rapid.IntRange(0, 3).Draw(t, "use")]
	cont := rapid.IntRange(0, 4).Draw(t, "container")
	prefix, rest := [][2]string{{"", ""}, {"> ", "> "}, {"- ", "  "}, {"> 1. ", ">    "}, {">", ">"}}[cont][0], [][2]string{{"", ""}, {"> ", "> "}, {"- ", "  "}, {"> 1. ", ">    "}, {">", ">"}}[cont][1]
	def := "[" + l + "]: /u"
	var doc string
	if rapid.Bool().Draw(t, "deffirst") {
		doc = inContainer(def+"\n", prefix, rest) + "\n" + inContainer("w "+use+" w\n", prefix, rest)
	} else {
		doc = inContainer("w "+use+" w\n", prefix, rest) + "\n" + inContainer(def+"\n", prefix, rest)
	}
	c := harness.Case{In: []byte(doc)}
	c.SetI("chars", n)
	c.SetI("container", cont)
	c.SetS("unit", unit)
	return c
}

func propLongLabel(c harness.Case) harness.Result {
	var res harness.Result
	blocks, refs := cm.Parse(append([]byte(nil), c.In...))
	var buf bytes.Buffer
	(&cm.HTMLRenderer{ReferenceMap: refs, IgnoreRaw: true}).Render(&buf, blocks)
	out := buf.String()
	got := strings.Contains(out, "href=\"/u\"") || strings.Contains(out, "src=\"/u\"")
	want := c.I["chars"] <= 999
	res.Nontrivial = true
	res.Labels = append(res.Labels, fmt.Sprintf("chars_%d", c.I["chars"]), fmt.Sprintf("container_%d", c.I["container"]), fmt.Sprintf("unit_bytes_%d", len(c.S["unit"])))
	if got != want {
		res.Err = fmt.Errorf("a label of %d characters (unit %q, container %d): resolved = %v, want %v (at most 999 characters inside the brackets, container prefixes and extra bytes of multi-byte characters not counted)", c.I["chars"], c.S["unit"], c.I["container"], got, want)
	}
	if want && len(refs) != 1 {
		res.Err = fmt.Errorf("a label of %d characters: the reference map has %d entries, want 1", c.I["chars"], len(refs))
	}
	return res
}

func TestProperty(t *testing.T) {
	// harness self-check: the hand-written fold table against x/text
	for r, want := range foldTable {
		if got := cases.Fold().String(string(r)); got != want {
			harness.Inconclusive("fold table entry %q: table %q, x/text %q", r, want, got)
		}
	}
	harness.Run(t, harness.Plan{Prop: "C12", Suppress: findings.Suppressor("C12"), Checks: []harness.Check{
		{Name: "resolve", Quick: 80000, Thorough: 1000000, Gen: genResolve, Prop: propResolve,
			Rule: "history of 1-4 definitions (labels = re-spellings / edits of a base label over an alphabet with multi-character folds, interior white space runs incl. line endings, edge white space of ASCII and Unicode kinds, escaped brackets; at top level, in a quote or in a list item; with/without title; destination and title on the same or on the following line, destination bare or in angle brackets; document line endings LF, CRLF or CR) and one use (shortcut, collapsed, full, or full with empty link text; link or image; between words, at the end of its line, as the content of an ATX heading, possibly as the last bytes of a document without final line ending) placed before, between or after them; oracle = the use resolves iff some definition's label has the same reference-normalised form, to the first such definition's destination and title; non-trivial = resolves with labels that differ as strings, a near miss (differs only by case / white-space spelling yet must not match, or vice versa), or >= 2 competing definitions"},
		{Name: "long_labels", Quick: 6000, Thorough: 100000, Gen: genLongLabel, Prop: propLongLabel,
			Rule: "a definition and a use (shortcut, collapsed, full, image) of a label of 985-1003 characters (two in three exactly 998-1001), made of one-, two-, three- or four-byte characters, written on 1-40 lines, at top level, in a quote (with and without the optional space), in a list item or in a list item in a quote; oracle = both resolve iff the label has at most 999 characters (code points), whatever its byte length and whatever the container prefixes add to the source between the brackets"},
		{Name: "busy_labels", Quick: 4000, Thorough: 60000, Gen: genBusyLabel, Prop: propLongLabel,
			Rule: "a definition and a use (shortcut, collapsed, full, image) of a label of 5-120 words that read as emphasis, code spans or lone delimiter runs when they are link text (up to 240 delimiter runs between the brackets); the label is well below the length limit, so both resolve"},
		{Name: "closure", Quick: 100000, Thorough: 1000000, Gen: func(t *rapid.T) harness.Case {
			if rapid.IntRange(0, 9).Draw(t, "g") < 7 {
				return harness.Case{In: genRefSoup(t)}
			}
			return harness.Case{In: gen.Doc().Draw(t, "in")}
		}, Prop: propClosure,
			Rule: "reference-heavy documents (definitions and uses over a small label pool, in and out of containers; 70%) and G1/G2/G3 inputs (30%); every reference-style Link/Image names a key of the returned map, every key is in normalized form (x/text fold, and independently no upper-case ASCII / edge or doubled space / tab / line ending), and a fresh map filled by Extract over the root blocks in order equals the returned map; non-trivial = the document has a reference node or a definition"},
	}})
}
