// Package c14 decides property C14: line-ending style, leading blank lines and
// the final newline do not change meaning.
package c14

import (
	"bytes"
	"fmt"
	"strings"
	"testing"

	"pgregory.net/rapid"
	"verif/internal/cmutil"
	"verif/internal/findings"
	"verif/internal/gen"
	"verif/internal/harness"
	"verif/internal/htmlnorm"
	"verif/internal/tree"
	cm "zombiezen.com/go/commonmark"
)

func TestMain(m *testing.M) { harness.Main(m) }

func stripCR(in []byte) []byte {
	out := make([]byte, 0, len(in))
	for _, c := range in {
		if c != '\r' {
			out = append(out, c)
		}
	}
	return out
}

func interesting(in []byte) (bool, []string) {
	blocks, _ := cm.Parse(append([]byte(nil), in...))
	var labels []string
	nt := false
	lines := cmutil.CountLineEndings(in)
	for _, b := range blocks {
		s := tree.Summarize(b)
		if s.Blocks[cm.IndentedCodeBlockKind]+s.Blocks[cm.FencedCodeBlockKind] > 0 {
			labels = append(labels, "code_block")
			nt = true
		}
		if s.Blocks[cm.HTMLBlockKind] > 0 {
			labels = append(labels, "html_block")
			nt = true
		}
		if s.Inlines[cm.HardLineBreakKind] > 0 {
			labels = append(labels, "hard_break")
			nt = true
		}
		if s.MultiLineInline > 0 {
			labels = append(labels, "multi_line_inline")
			nt = true
		}
		if s.Containers > 0 {
			labels = append(labels, "container")
			nt = true
		}
	}
	return nt && lines >= 1, labels
}

// (a) line-ending style
func propEndings(c harness.Case) harness.Result {
	x := stripCR(c.In)
	nt, labels := interesting(x)
	res := harness.Result{Nontrivial: nt, Labels: labels}
	base := cmutil.RenderDefault(x)
	if strings.IndexByte(base, '\r') >= 0 {
		// x has no CR, so this one was decoded from a character reference
		// (&#13; in a title); the byte-level comparison below would confuse
		// it with a copied line ending. Counted, not compared.
		res.Labels = append(res.Labels, "skipped_cr_from_character_reference")
		res.Nontrivial = false
		return res
	}
	crlf := bytes.ReplaceAll(x, []byte("\n"), []byte("\r\n"))
	if h := strings.ReplaceAll(cmutil.RenderDefault(crlf), "\r\n", "\n"); h != base {
		res.Err = fmt.Errorf("CRLF changes the rendering:\n LF:   %q\n CRLF: %q", base, h)
		return res
	}
	cr := bytes.ReplaceAll(x, []byte("\n"), []byte("\r"))
	if h := strings.ReplaceAll(cmutil.RenderDefault(cr), "\r", "\n"); h != base {
		res.Err = fmt.Errorf("CR changes the rendering:\n LF: %q\n CR: %q", base, h)
		return res
	}
	// the same under other renderer configurations (the tag filter reads tag
	// names up to white space, which a CR is; soft breaks are rewritten)
	for _, r := range []*cm.HTMLRenderer{
		{FilterTag: cm.FilterTagGFM},
		{FilterTag: func(tag []byte) bool { return len(tag) > 0 && (tag[0]|0x20) >= 'a' && (tag[0]|0x20) <= 'p' }, SoftBreakBehavior: cm.SoftBreakHarden},
		{IgnoreRaw: true, SoftBreakBehavior: cm.SoftBreakSpace},
	} {
		rend := func(in []byte) string {
			blocks, refs := cm.Parse(append([]byte(nil), in...))
			rr := *r
			rr.ReferenceMap = refs
			var buf bytes.Buffer
			rr.Render(&buf, blocks)
			return buf.String()
		}
		b0 := rend(x)
		if h := strings.ReplaceAll(rend(crlf), "\r\n", "\n"); h != b0 {
			res.Err = fmt.Errorf("CRLF changes the rendering (filter set=%v ignoreRaw=%v soft=%v):\n LF:   %q\n CRLF: %q", r.FilterTag != nil, r.IgnoreRaw, r.SoftBreakBehavior, b0, h)
			return res
		}
		if h := strings.ReplaceAll(rend(cr), "\r", "\n"); h != b0 {
			res.Err = fmt.Errorf("CR changes the rendering (filter set=%v ignoreRaw=%v soft=%v):\n LF: %q\n CR: %q", r.FilterTag != nil, r.IgnoreRaw, r.SoftBreakBehavior, b0, h)
			return res
		}
	}
	// the same through the streaming entry point, one byte per read (a CRLF pair
	// then always straddles two reads)
	for _, v := range []struct {
		name string
		in   []byte
		back func(string) string
	}{
		{"CRLF", crlf, func(s string) string { return strings.ReplaceAll(s, "\r\n", "\n") }},
		{"CR", cr, func(s string) string { return strings.ReplaceAll(s, "\r", "\n") }},
	} {
		if len(v.in) > 600 {
			continue
		}
		ones := make([]int, len(v.in))
		for i := range ones {
			ones[i] = 1
		}
		blocks, refs, err := tree.StreamParse(gen.NewSchedReader(v.in, ones, false, -1))
		if err != nil {
			res.Err = fmt.Errorf("streaming parse: %v", err)
			return res
		}
		var buf bytes.Buffer
		cm.RenderHTML(&buf, blocks, refs)
		if h := v.back(buf.String()); h != base {
			res.Err = fmt.Errorf("%s changes the rendering when the document is streamed one byte per read:\n LF:   %q\n %s: %q", v.name, base, v.name, h)
			return res
		}
	}
	return res
}

// (b) leading blank lines
func propPad(c harness.Case) harness.Result {
	x := c.In
	pad := c.B["pad"]
	nt, labels := interesting(x)
	res := harness.Result{Nontrivial: nt, Labels: labels}
	a, _ := cm.Parse(append([]byte(nil), x...))
	px := append(append([]byte(nil), pad...), x...)
	b, _ := cm.Parse(px)
	if len(a) != len(b) {
		res.Err = fmt.Errorf("pad %q: %d blocks without, %d with", pad, len(a), len(b))
		return res
	}
	shiftLines := cmutil.CountLineEndings(pad)
	for i := range a {
		da := tree.DumpRoot(a[i], 0, 0)
		db := tree.DumpRoot(b[i], int64(len(pad)), shiftLines)
		if da != db {
			res.Err = fmt.Errorf("pad %q (%d bytes, %d lines): block %d differs\nwithout pad:\n%s\nwith pad (shifted back):\n%s", clipPad(pad), len(pad), shiftLines, i, da, db)
			return res
		}
	}
	// the same through the streaming entry point (blank lines belong to no
	// block, however many there are)
	if c.I["stream"] == 1 {
		sb, _, err := tree.StreamParse(bytes.NewReader(px))
		if err != nil {
			res.Err = fmt.Errorf("pad of %d bytes: streaming parse reported %v", len(pad), err)
			return res
		}
		if len(sb) != len(a) {
			res.Err = fmt.Errorf("pad of %d bytes: streaming parse gives %d blocks, %d without the pad", len(pad), len(sb), len(a))
			return res
		}
		for i := range a {
			if da, db := tree.DumpRoot(a[i], 0, 0), tree.DumpRoot(sb[i], int64(len(pad)), shiftLines); da != db {
				res.Err = fmt.Errorf("pad of %d bytes, streaming: block %d differs\nwithout pad:\n%s\nwith pad (shifted back):\n%s", len(pad), i, da, db)
				return res
			}
		}
	}
	return res
}

func clipPad(p []byte) []byte {
	if len(p) > 60 {
		return append(append([]byte(nil), p[:60]...), "..."...)
	}
	return p
}

// long paddings: blank-line runs longer than the streaming parser's block limit
func longPadding(t *testing.T, plan harness.Plan) {
	if harness.Cfg().Shard != 0 {
		return
	}
	const name = "long_padding"
	n := 0
	for _, size := range []int{900000, 1100000, 2200000} {
		for _, unit := range []string{"\n", " \n", "\r\n", "\t \r"} {
			for _, x := range []string{"# h\n\npara [r]\n\n[r]: /u\n", "> q\n> r\n"} {
				c := harness.Case{In: []byte(x)}
				c.SetB("pad", []byte(strings.Repeat(unit, size/len(unit))))
				c.SetI("stream", 1)
				res := propPad(c)
				n++
				harness.CountRaw(name, uint64(size*31+len(unit)*7+len(x)), true, func() string { return fmt.Sprintf("%d bytes of %q before %q", size, unit, x) })
				if res.Err != nil && harness.Fail(t, plan, name, c, res.Err) {
					return
				}
			}
		}
	}
	harness.SetExhaustive(name, fmt.Sprintf("%d documents: 0.9 / 1.1 / 2.2 MB of blank lines (four spellings) before two small documents, in memory and streamed", n))
}

// (c) final newline. Three sub-domains, chosen so that the comparison never
// has to guess whether a CR LF pair in the output is one copied CRLF or a
// copied CR followed by a newline the renderer generated:
// ending 0: x as generated (any mixture of endings), LF appended, outputs
// compared without any line-ending mapping (the newline the library generates
// for a code block that ends at end of input is an LF, like the appended one);
// ending 1: x rewritten to pure CRLF, CRLF appended, CRLF pairs mapped to LF;
// ending 2: x rewritten to pure CR, CR appended, every CR mapped to LF.
func propFinal(c harness.Case) harness.Result {
	x := c.In
	for len(x) > 0 && (x[len(x)-1] == '\n' || x[len(x)-1] == '\r') {
		x = x[:len(x)-1]
	}
	ending := "\n"
	mapLE := func(s string) string { return s }
	switch c.I["ending"] {
	case 1:
		x = bytes.ReplaceAll(stripCR(x), []byte("\n"), []byte("\r\n"))
		ending = "\r\n"
		mapLE = func(s string) string { return strings.ReplaceAll(s, "\r\n", "\n") }
	case 2:
		x = bytes.ReplaceAll(stripCR(x), []byte("\n"), []byte("\r"))
		ending = "\r"
		mapLE = func(s string) string { return strings.ReplaceAll(s, "\r", "\n") }
	}
	nt, labels := interesting(x)
	res := harness.Result{Nontrivial: nt, Labels: labels}
	// under every soft-break behaviour (the line ending that ends the input is
	// never a soft break: it ends a block)
	for _, soft := range []cm.SoftBreakBehavior{cm.SoftBreakPreserve, cm.SoftBreakSpace, cm.SoftBreakHarden} {
		sa, sb := cmutil.SafeSoft(x, soft), cmutil.SafeSoft(append(append([]byte(nil), x...), ending...), soft)
		na, err := htmlnorm.NormalizeString(mapLE(sa), nil)
		if err != nil {
			// the output is not in the renderer's own vocabulary: that is C07's
			// business; there is no sound "insignificant whitespace" form to compare
			res.Labels = append(res.Labels, "skipped_untokenizable_output")
			res.Nontrivial = false
			return res
		}
		nb, err := htmlnorm.NormalizeString(mapLE(sb), nil)
		if err != nil || na != nb {
			res.Err = fmt.Errorf("appending %q to %q changes the safe-mode rendering (soft breaks: %v):\n without: %q\n with:    %q", ending, x, soft, sa, sb)
			return res
		}
	}
	return res
}

// ---- last lines: the final-newline clause is about what the last line of the
// input is when nothing follows it. Every kind of line that the block and
// inline rules treat specially, as the last line of every kind of context.


func lastLineCheck(t *testing.T, plan harness.Plan) {
	const name = "last_lines"
	if harness.Cfg().Shard != 0 {
		return
	}
	n := 0
	for _, ctx := range gen.LastContexts {
		for _, l := range gen.LastLines {
			for ending := 0; ending <= 2; ending++ {
				c := harness.Case{In: []byte(ctx + l)}
				c.SetI("ending", ending)
				res := propFinal(c)
				n++
				harness.Count(name, &c, true)
				if res.Err != nil && harness.Fail(t, plan, name, c, res.Err) {
					return
				}
			}
		}
	}
	harness.SetExhaustive(name, fmt.Sprintf("%d contexts x %d last lines x 3 line-ending styles = %d inputs", len(gen.LastContexts), len(gen.LastLines), n))
}

func genPad(t *rapid.T) harness.Case {
	x := gen.Doc().Draw(t, "in")
	n := rapid.IntRange(1, 5).Draw(t, "padlines")
	var pad []byte
	for i := 0; i < n; i++ {
		ws := []string{"", "", " ", "  ", "\t", "    ", " \t "}[rapid.IntRange(0, 6).Draw(t, "ws")]
		end := []string{"\n", "\r\n", "\r"}[rapid.IntRange(0, 2).Draw(t, "end")]
		// a piece that starts with LF directly after a CR-terminated piece
		// would fuse with it into one CRLF: keep them apart by construction
		if ws == "" && end[0] == '\n' && len(pad) > 0 && pad[len(pad)-1] == '\r' {
			ws = " "
		}
		pad = append(pad, ws...)
		pad = append(pad, end...)
	}
	if len(x) > 0 && x[0] == '\n' && pad[len(pad)-1] == '\r' {
		pad[len(pad)-1] = '\n'
	}
	c := harness.Case{In: x}
	c.SetB("pad", pad)
	if rapid.Bool().Draw(t, "stream") {
		c.SetI("stream", 1)
	}
	return c
}

func TestProperty(t *testing.T) {
	doc := func(t *rapid.T) harness.Case { return harness.Case{In: gen.Doc().Draw(t, "in")} }
	plan := harness.Plan{Prop: "C14", Suppress: findings.Suppressor("C14"), Checks: []harness.Check{
		{Name: "line_endings", Quick: 60000, Thorough: 800000, Gen: doc, Prop: propEndings,
			Rule: "G1/G2/G3 inputs with every CR removed; LF(HTML(crlf(x))) == LF(HTML(x)) and LF(HTML(cr(x))) == LF(HTML(x)) byte for byte under the default renderer; non-trivial = >= 1 line ending and a code block, hard break, HTML block, multi-line inline construct or container"},
		{Name: "line_endings_at_limits", Quick: 1500, Thorough: 60000, Gen: func(t *rapid.T) harness.Case {
			d := gen.LongLabelDoc().Draw(t, "in")
			switch rapid.IntRange(0, 2).Draw(t, "container") {
			case 1:
				d = append([]byte("> "), bytes.ReplaceAll(d, []byte("\n"), []byte("\n> "))...)
			case 2:
				d = append([]byte("- "), bytes.ReplaceAll(d, []byte("\n"), []byte("\n  "))...)
			}
			return harness.Case{In: d}
		}, Prop: propEndings,
			Rule: "a definition and a use of a label of 985-1003 characters (one in three exactly 997-1000) written on 1-5 lines, at top level, in a quote or in a list item: a line ending inside a label is one line ending however it is spelled, so a count-based limit must not tell LF from CRLF; the line_endings relation"},
		{Name: "padding", Quick: 60000, Thorough: 800000, Gen: genPad, Prop: propPad,
			Rule: "any G1/G2/G3 input x pad of 1-5 blank lines (spaces/tabs + LF|CRLF|CR, built so that no CR fuses with a following LF); block lists structurally equal with offsets shifted by len(pad) and StartLine by the pad's line count; non-trivial as for line_endings"},
		{Name: "final_newline", Quick: 60000, Thorough: 800000, Gen: func(t *rapid.T) harness.Case {
			c := harness.Case{In: gen.Doc().Draw(t, "in")}
			c.SetI("ending", rapid.IntRange(0, 2).Draw(t, "ending"))
			return c
		}, Prop: propFinal,
			Rule: "G1/G2/G3 inputs with trailing line endings removed; O3 normal form of the safe-mode rendering of x and of x+ending equal, for (any x, LF), (x in pure CRLF, CRLF), (x in pure CR, CR); non-trivial as for line_endings"},
		{Name: "last_lines", Prop: propFinal,
			Rule: "enumerated: every kind of line the block and inline rules treat specially (unfinished and finished constructs, markers alone, fences with and without info strings and backticks, underlines, HTML block openers and closers, definitions and their parts, white space, NUL, invalid UTF-8) as the last line, without line ending, of every kind of context (empty, after a paragraph, in quotes and items, in open code / HTML blocks, after a definition, inside unfinished inline constructs), under the final-newline relation in all three line-ending styles"},
	}}
	plan.Checks = append(plan.Checks, harness.Check{Name: "long_padding", Prop: propPad, Rule: "enumerated: blank-line runs of 0.9-2.2 MB (longer than any block may be) before a small document, through Parse and through the streaming parser"})
	plan.After = func(t *testing.T) {
		lastLineCheck(t, plan)
		if !t.Failed() {
			longPadding(t, plan)
		}
	}
	harness.Run(t, plan)
}
