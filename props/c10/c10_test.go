// Package c10 decides property C10: the HTML written equals an independent,
// direct reading of the tree (internal/refrender) in every configuration, and
// rendering is deterministic, pure, empty for reference definitions and
// compositional over the block list.
package c10

import (
	"bufio"
	"bytes"
	"fmt"
	"strings"
	"testing"

	"pgregory.net/rapid"
	"verif/internal/findings"
	"verif/internal/gen"
	"verif/internal/harness"
	"verif/internal/refrender"
	"verif/internal/tree"
	cm "zombiezen.com/go/commonmark"
)

func TestMain(m *testing.M) { harness.Main(m) }

var gfmNames = map[string]bool{"title": true, "textarea": true, "style": true, "xmp": true, "iframe": true, "noembed": true, "noframes": true, "script": true, "plaintext": true}

var namePool = []string{"p", "a", "em", "strong", "code", "pre", "img", "br", "hr", "h1", "h2", "ul", "ol", "li", "blockquote", "script", "style", "title", "textarea", "xmp", "iframe", "noembed", "noframes", "plaintext", "div", "b", "span", ""}

// filterPair returns the predicate given to the library and the one given to
// the reference renderer for a filter specification.
func filterPair(spec string) (func([]byte) bool, func(string) bool) {
	switch {
	case spec == "" || spec == "nil":
		return nil, nil
	case spec == "gfm":
		return cm.FilterTagGFM, func(n string) bool { return gfmNames[n] }
	case spec == "always":
		return func([]byte) bool { return true }, func(string) bool { return true }
	case spec == "never":
		return func([]byte) bool { return false }, func(string) bool { return false }
	}
	set := map[string]bool{}
	for _, n := range strings.Split(strings.TrimPrefix(spec, "set:"), ",") {
		set[n] = true
	}
	return func(t []byte) bool { return set[string(t)] }, func(n string) bool { return set[n] }
}

// one checks one configuration. With a nil r a fresh renderer is made; otherwise
// the caller's renderer value is set to the configuration and used (a caller
// may keep one HTMLRenderer and change its fields between calls: the output
// depends on the fields as they are at the call, never on earlier calls).
func one(r *cm.HTMLRenderer, blocks []*cm.RootBlock, refs cm.ReferenceMap, soft cm.SoftBreakBehavior, ignore bool, spec string) error {
	libF, refF := filterPair(spec)
	if r == nil {
		r = &cm.HTMLRenderer{}
	}
	r.ReferenceMap, r.SoftBreakBehavior, r.IgnoreRaw, r.FilterTag = refs, soft, ignore, libF
	cfg := refrender.Config{Soft: soft, IgnoreRaw: ignore, Filter: refF}
	var parts []string
	for bi, b := range blocks {
		out := string(r.AppendBlock(nil, b))
		toks := refrender.Block(cfg, refs, b.Source, &b.Block, false)
		if err := refrender.Match(out, toks, refF); err != nil {
			return fmt.Errorf("config soft=%v ignoreRaw=%v filter=%s, root block %d %q:\n library output %q\n %v", soft, ignore, spec, bi, clip(b.Source), out, err)
		}
		if b.Kind() == cm.LinkReferenceDefinitionKind && out != "" {
			return fmt.Errorf("reference definition block rendered %q", out)
		}
		// AppendBlock keeps its prefix and appends the same bytes
		pre := []byte("PREFIX\x00<>")
		if got := r.AppendBlock(append([]byte(nil), pre...), b); !bytes.Equal(got[:len(pre)], pre) || string(got[len(pre):]) != out {
			return fmt.Errorf("AppendBlock(prefix, block %d) = %q, want prefix + %q", bi, got, out)
		}
		parts = append(parts, out)
	}
	var buf bytes.Buffer
	if err := r.Render(&buf, blocks); err != nil {
		return fmt.Errorf("Render: %v", err)
	}
	if want := strings.Join(parts, "\n\n"); buf.String() != want {
		return fmt.Errorf("Render(blocks) = %q, want the AppendBlock outputs joined by blank lines %q", buf.String(), want)
	}
	var buf2 bytes.Buffer
	r.Render(&buf2, blocks)
	if buf2.String() != buf.String() {
		return fmt.Errorf("rendering twice gave different output")
	}
	// what Render writes does not depend on the writer: a buffer that already
	// holds bytes and has spare capacity, a buffer that was used and reset, a
	// buffered writer, a string builder and a writer with no method but Write
	// all receive the same bytes (under four of the configurations: the writer
	// is independent of the configuration)
	if soft != cm.SoftBreakPreserve || (spec != "nil" && spec != "gfm") {
		return nil
	}
	pre := bytes.NewBufferString("<!-- head -->")
	pre.Grow(len(buf.Bytes()) + 4096)
	r.Render(pre, blocks)
	if got := pre.String(); got != "<!-- head -->"+buf.String() {
		return fmt.Errorf("Render into a bytes.Buffer that holds a prefix and has spare capacity wrote %q, want the prefix followed by %q", got, buf.String())
	}
	pre.Reset()
	r.Render(pre, blocks)
	if pre.String() != buf.String() {
		return fmt.Errorf("Render into a reused (Reset) bytes.Buffer wrote %q, want %q", pre.String(), buf.String())
	}
	var under bytes.Buffer
	bw := bufio.NewWriterSize(&under, 64+len(buf.Bytes())/3)
	r.Render(bw, blocks)
	bw.Flush()
	if under.String() != buf.String() {
		return fmt.Errorf("Render into a bufio.Writer wrote %q, want %q", under.String(), buf.String())
	}
	var sb strings.Builder
	r.Render(&sb, blocks)
	if sb.String() != buf.String() {
		return fmt.Errorf("Render into a strings.Builder wrote %q, want %q", sb.String(), buf.String())
	}
	var po plainOnly
	r.Render(&po, blocks)
	if string(po.b) != buf.String() {
		return fmt.Errorf("Render into a plain io.Writer wrote %q, want %q", po.b, buf.String())
	}
	return nil
}

// plainOnly is an io.Writer without any other method; it copies what it is
// given (a writer must not keep p).
type plainOnly struct{ b []byte }

func (w *plainOnly) Write(p []byte) (int, error) { w.b = append(w.b, p...); return len(p), nil }

func clip(b []byte) []byte {
	if len(b) > 160 {
		return append(append([]byte{}, b[:160]...), "..."...)
	}
	return b
}

func prop(c harness.Case) harness.Result {
	blocks, refs := cm.Parse(append([]byte(nil), c.In...))
	var res harness.Result
	seen := map[string]bool{}
	for _, b := range blocks {
		s := tree.Summarize(b)
		if s.Inlines[cm.ImageKind] > 0 {
			seen["image"] = true
		}
		if s.Inlines[cm.CharacterReferenceKind] > 0 {
			seen["character_reference"] = true
		}
		if s.Inlines[cm.RawHTMLKind] > 0 {
			seen["raw_html"] = true
		}
		if s.Inlines[cm.SoftLineBreakKind] > 0 {
			seen["soft_break"] = true
		}
		if s.Blocks[cm.ListKind] > 0 {
			seen["list"] = true
		}
		if s.Blocks[cm.LinkReferenceDefinitionKind] > 0 {
			seen["reference_definition"] = true
		}
	}
	for k := range seen {
		res.Labels = append(res.Labels, k)
	}
	res.Nontrivial = len(seen) > 0
	// purity: dump of the tree and copies of the sources before and after
	var before []string
	var srcs [][]byte
	for _, b := range blocks {
		before = append(before, tree.DumpRoot(b, 0, 0))
		srcs = append(srcs, append([]byte(nil), b.Source...))
	}
	specs := []string{"nil", "gfm", "always", "never", c.S["names"]}
	if c.S["names"] == "" {
		specs = specs[:4]
	}
	// every other case keeps one renderer value for all its configurations
	var shared *cm.HTMLRenderer
	if len(c.In)%2 == 0 {
		shared = &cm.HTMLRenderer{}
		res.Labels = append(res.Labels, "one_renderer_value_reconfigured")
	}
	softs := []cm.SoftBreakBehavior{cm.SoftBreakPreserve, cm.SoftBreakSpace, cm.SoftBreakHarden}
	igns := []bool{false, true}
	if c.I["large"] == 1 {
		// large documents: two configurations (the comparison is the same, the
		// cost is in the size)
		softs, igns, specs = softs[:1], igns[:1], []string{"nil", "gfm"}
		res.Labels = append(res.Labels, "large_document")
	}
	for _, soft := range softs {
		for _, ign := range igns {
			for _, spec := range specs {
				if err := one(shared, blocks, refs, soft, ign, spec); err != nil {
					res.Err = err
					return res
				}
			}
		}
	}
	// RenderHTML == default renderer
	var a, b bytes.Buffer
	cm.RenderHTML(&a, blocks, refs)
	(&cm.HTMLRenderer{ReferenceMap: refs}).Render(&b, blocks)
	if a.String() != b.String() {
		res.Err = fmt.Errorf("RenderHTML differs from the default HTMLRenderer")
		return res
	}
	for i, bl := range blocks {
		if tree.DumpRoot(bl, 0, 0) != before[i] || !bytes.Equal(bl.Source, srcs[i]) {
			res.Err = fmt.Errorf("rendering modified root block %d or its Source", i)
			return res
		}
	}
	return res
}

func genCase(g *rapid.Generator[[]byte]) func(t *rapid.T) harness.Case {
	return func(t *rapid.T) harness.Case {
		c := harness.Case{In: g.Draw(t, "in")}
		n := rapid.IntRange(0, 4).Draw(t, "nnames")
		if n > 0 {
			var names []string
			for i := 0; i < n; i++ {
				names = append(names, namePool[rapid.IntRange(0, len(namePool)-1).Draw(t, "name")])
			}
			c.SetS("names", "set:"+strings.Join(names, ","))
		}
		return c
	}
}

const rule = "tree = Parse(G1/G2/G3 input) x 3 soft-break behaviours x IgnoreRaw x FilterTag{nil, GFM, always, never, generated name set}; oracle = lock-step match of AppendBlock output against the reference renderer's token list (text and attribute values entity-decoded, raw HTML byte for byte or '<'->'&lt;' under a filter), plus determinism, purity, empty output for definitions, Render == AppendBlock outputs joined by blank lines, prefix preservation, RenderHTML == default; non-trivial = tree has an image, character reference, raw HTML, soft break, list or reference definition"

func plan() harness.Plan {
	return harness.Plan{Prop: "C10", Suppress: findings.Suppressor("C10"), Checks: []harness.Check{
		{Name: "render", Quick: 30000, Thorough: 400000, Gen: genCase(gen.Doc()), Prop: prop, Rule: rule},
		{Name: "render_html", Quick: 15000, Thorough: 200000, Gen: genCase(gen.HTMLSoup()), Prop: prop, Rule: "raw-HTML-heavy inputs (comments, CDATA, upper/mixed-case tag names of equal lengths, raw-text elements): " + rule},
		{Name: "render_sinks", Quick: 15000, Thorough: 200000, Gen: genCase(gen.Sink()), Prop: prop, Rule: "hostile payloads (quotes, references, percent escapes, NUL, invalid UTF-8, white-space references) placed where text reaches an attribute or an element (destinations, titles, info strings, alt text, autolinks, list starts): " + rule},
		{Name: "render_large", Quick: 60, Thorough: 1500, Gen: func(t *rapid.T) harness.Case {
			var in []byte
			switch rapid.IntRange(0, 2).Draw(t, "shape") {
			case 0:
				in = gen.LongDoc(20000, 90000).Draw(t, "in")
			case 1:
				// one root block whose HTML runs to tens of kilobytes, alone or last
				in = []byte("intro\n\n" + strings.Repeat("word *em* `code` &amp; <b> [l](/u) ", rapid.IntRange(400, 3000).Draw(t, "reps")) + "\n")
			default:
				in = append(gen.LongDoc(20000, 60000).Draw(t, "in"), []byte("\n\n```\n"+strings.Repeat("code line <&>\n", rapid.IntRange(1500, 4000).Draw(t, "lines"))+"```\n")...)
			}
			c := harness.Case{In: in}
			c.SetI("large", 1)
			return c
		}, Prop: prop, Rule: "documents whose HTML runs from 30 KB to several hundred KB (hundreds of root blocks; one huge paragraph; a long document that ends in a huge code block) under two configurations and every kind of writer: anything Render does in chunks or above a size; " + rule},
		{Name: "render_lines", Quick: 15000, Thorough: 200000, Gen: genCase(gen.Lines()), Prop: prop, Rule: "G2 only: " + rule},
	}}
}

func TestProperty(t *testing.T) {
	p := plan()
	p.Checks = append(p.Checks, harness.Check{Name: "edge_documents", Prop: prop, Rule: "enumerated: every special line as the last line of every context (gen.EdgeDocs): " + rule})
	p.After = func(t *testing.T) {
		harness.EnumerateInputs(t, p, "edge_documents", gen.EdgeDocs(), func(i int, in []byte) harness.Case {
			c := harness.Case{In: in}
			if i%3 == 0 {
				c.SetS("names", "set:p,pre,code,div,b,script")
			}
			return c
		}, prop)
	}
	harness.Run(t, p)
}

// FuzzProperty is the native coverage-guided fuzz entry (thorough tier).
func FuzzProperty(f *testing.F) {
	harness.FuzzTarget(f, plan(), "render", gen.SeedCorpus())
}
