// Package c18 decides property C18: Walk visits every node once, in order,
// honouring pruning and abort, with a consistent cursor, and uses the caller's
// ChildCount/Child functions everywhere.
package c18

import (
	"fmt"
	"strings"
	"testing"

	"pgregory.net/rapid"
	"verif/internal/gen"
	"verif/internal/harness"
	cm "zombiezen.com/go/commonmark"
)

func TestMain(m *testing.M) { harness.Main(m) }

type event struct {
	post   bool
	node   cm.Node
	parent cm.Node
	index  int
	block  *cm.Block
}

func (e event) String() string {
	k := "Pre"
	if e.post {
		k = "Post"
	}
	return fmt.Sprintf("%s(%s idx=%d parent=%s block=%s)", k, name(e.node), e.index, name(e.parent), name(e.block.AsNode()))
}

func name(n cm.Node) string {
	if b := n.Block(); b != nil {
		return fmt.Sprintf("%v%v", b.Kind(), b.Span())
	}
	if i := n.Inline(); i != nil {
		return fmt.Sprintf("%v%v", i.Kind(), i.Span())
	}
	return "nil"
}

// view is the child function pair presented to Walk (and used by the
// reference walker): mode 0 = library defaults (nil functions), 1 = identity,
// 2 = children reversed, 3 = at most two children, 4 = only ChildCount is
// supplied (an outline view: paragraphs and headings are leaves, other nodes
// show at most two children; Child is left nil, so the default applies),
// 5 = only Child is supplied (children rotated by one; ChildCount is left
// nil); virtual = the zero Node is a root whose children are the document's
// root blocks.
type view struct {
	mode    int
	virtual bool
	blocks  []*cm.RootBlock
	calls   int
}

func (v *view) count(n cm.Node) int {
	v.calls++
	if n == (cm.Node{}) {
		if v.virtual {
			return len(v.blocks)
		}
		return 0
	}
	c := n.ChildCount()
	if (v.mode == 3 || v.mode == 4) && c > 2 {
		c = 2
	}
	if v.mode == 4 {
		if b := n.Block(); b != nil {
			switch b.Kind() {
			case cm.ParagraphKind, cm.ATXHeadingKind, cm.SetextHeadingKind:
				c = 0
			}
		}
	}
	return c
}

func (v *view) child(n cm.Node, i int) cm.Node {
	v.calls++
	if n == (cm.Node{}) {
		return v.blocks[i].AsNode()
	}
	if v.mode == 2 {
		return n.Child(n.ChildCount() - 1 - i)
	}
	if v.mode == 5 {
		return n.Child((i + 1) % n.ChildCount())
	}
	return n.Child(i)
}

type policy struct {
	prune          map[int]bool // ordinals of Pre calls that return false
	abort          int          // ordinal of the Post call that returns false (-1: never)
	nilPre, nilPos bool
}

// reference walker (O7): plain recursion.
func reference(v *view, root cm.Node, p policy) []event {
	var evs []event
	pre, post := 0, 0
	var rec func(n, parent cm.Node, index int, block *cm.Block) bool
	rec = func(n, parent cm.Node, index int, block *cm.Block) bool {
		if !p.nilPre {
			evs = append(evs, event{false, n, parent, index, block})
			ord := pre
			pre++
			if p.prune[ord] {
				return true
			}
		}
		childBlock := block
		if b := n.Block(); b != nil {
			childBlock = b
		}
		cnt := v.count(n)
		for i := 0; i < cnt; i++ {
			if !rec(v.child(n, i), n, i, childBlock) {
				return false
			}
		}
		if !p.nilPos {
			evs = append(evs, event{true, n, parent, index, block})
			ord := post
			post++
			if ord == p.abort {
				return false
			}
		}
		return true
	}
	rec(root, cm.Node{}, -1, nil)
	return evs
}

func prop(c harness.Case) harness.Result {
	blocks, _ := cm.Parse(append([]byte(nil), c.In...))
	res := harness.Result{}
	v := &view{mode: c.I["mode"], virtual: c.I["virtual"] == 1, blocks: blocks}
	if len(blocks) == 0 {
		// a document without blocks: the walk starts at the zero Node, which
		// is still a node (one Pre, one Post), under a virtual root with no
		// children or under the library's default child functions
		v.virtual = c.I["virtual"] == 1 || v.mode != 0
		res.Labels = append(res.Labels, "empty_document")
		if !v.virtual {
			// zero Node under the library's own child functions: no children
			want := reference(&view{}, cm.Node{}, policy{prune: map[int]bool{}, abort: -1})
			n := 0
			cm.Walk(cm.Node{}, &cm.WalkOptions{
				Pre:  func(cur *cm.Cursor) bool { n++; return true },
				Post: func(cur *cm.Cursor) bool { n++; return true },
			})
			if n != len(want) {
				res.Err = fmt.Errorf("Walk over the zero Node made %d callbacks, the reference walker %d", n, len(want))
			}
			return res
		}
	}
	root := cm.Node{}
	if !v.virtual && len(blocks) > 0 {
		root = blocks[c.I["root"]%len(blocks)].AsNode()
		// the walk may start at any node of the tree, block or inline: the
		// subroot-th node in document order (0 = the root block itself)
		if k := c.I["subroot"]; k > 0 {
			var all []cm.Node
			var collect func(n cm.Node)
			collect = func(n cm.Node) {
				all = append(all, n)
				for i := 0; i < n.ChildCount(); i++ {
					collect(n.Child(i))
				}
			}
			collect(root)
			root = all[k%len(all)]
		}
	} else if v.mode == 0 || v.mode >= 4 {
		v.mode = 1 // a virtual root needs both custom functions
	}
	p := policy{prune: map[int]bool{}, abort: -1, nilPre: c.I["nilpre"] == 1, nilPos: c.I["nilpost"] == 1}
	for _, o := range c.L["prune"] {
		p.prune[o] = true
	}
	if a, ok := c.I["abort"]; ok {
		p.abort = a
	}
	refView := *v
	want := reference(&refView, root, p)

	var got []event
	var cursorErr error
	pre, post := 0, 0
	checkCursor := func(cur *cm.Cursor, post bool) {
		e := event{post, cur.Node(), cur.Parent(), cur.Index(), cur.ParentBlock()}
		got = append(got, e)
		if cursorErr != nil {
			return
		}
		if cur.Node() == root {
			if cur.Parent() != (cm.Node{}) || cur.Index() >= 0 || cur.ParentBlock() != nil {
				cursorErr = fmt.Errorf("root cursor has parent=%s index=%d block=%v", name(cur.Parent()), cur.Index(), cur.ParentBlock())
			}
			return
		}
		if cur.Index() < 0 {
			cursorErr = fmt.Errorf("non-root node %s has index %d", name(cur.Node()), cur.Index())
			return
		}
		pv := *v
		if pv.child(cur.Parent(), cur.Index()) != cur.Node() {
			cursorErr = fmt.Errorf("Parent().Child(Index()) != Node() at %s", e)
		}
	}
	opts := &cm.WalkOptions{}
	// A callback may itself walk (here: the subtree of the node it is at) with
	// the very same WalkOptions value; the options are configuration, the
	// walk's position belongs to the walk. The inner walk makes the reference
	// walker's number of callbacks with a consistent cursor of its own, and
	// when it returns the outer callback's cursor still describes the outer node.
	nestedAt := -1
	if n, ok := c.I["nested"]; ok {
		nestedAt = n
	}
	inNested, nestedCalls := false, 0
	var nestedRoot cm.Node
	nestedCheck := func(cur *cm.Cursor) {
		nestedCalls++
		if cursorErr != nil {
			return
		}
		if cur.Node() == nestedRoot {
			if cur.Parent() != (cm.Node{}) || cur.Index() >= 0 {
				cursorErr = fmt.Errorf("nested walk: root cursor has parent=%s index=%d", name(cur.Parent()), cur.Index())
			}
			return
		}
		pv := *v
		if cur.Index() < 0 || pv.child(cur.Parent(), cur.Index()) != cur.Node() {
			cursorErr = fmt.Errorf("nested walk: Parent().Child(Index()) != Node() at %s", name(cur.Node()))
		}
	}
	if !p.nilPre {
		opts.Pre = func(cur *cm.Cursor) bool {
			if inNested {
				nestedCheck(cur)
				return true
			}
			checkCursor(cur, false)
			ord := pre
			pre++
			if ord == nestedAt {
				before := event{false, cur.Node(), cur.Parent(), cur.Index(), cur.ParentBlock()}
				nv := *v
				wantNested := len(reference(&nv, cur.Node(), policy{prune: map[int]bool{}, abort: -1, nilPos: p.nilPos}))
				inNested, nestedRoot, nestedCalls = true, cur.Node(), 0
				cm.Walk(cur.Node(), opts)
				inNested = false
				after := event{false, cur.Node(), cur.Parent(), cur.Index(), cur.ParentBlock()}
				if cursorErr == nil && after != before {
					cursorErr = fmt.Errorf("after a nested Walk with the same WalkOptions the outer callback's cursor changed from %s to %s", before, after)
				}
				if cursorErr == nil && nestedCalls != wantNested {
					cursorErr = fmt.Errorf("nested Walk at %s made %d callbacks, the reference walker %d", name(cur.Node()), nestedCalls, wantNested)
				}
			}
			return !p.prune[ord]
		}
	}
	if !p.nilPos {
		opts.Post = func(cur *cm.Cursor) bool {
			if inNested {
				nestedCheck(cur)
				return true
			}
			checkCursor(cur, true)
			ord := post
			post++
			return ord != p.abort
		}
	}
	switch v.mode {
	case 0:
	case 4:
		opts.ChildCount = v.count
	case 5:
		opts.Child = v.child
	default:
		opts.ChildCount = v.count
		opts.Child = v.child
	}
	cm.Walk(root, opts)

	nodes := len(want)
	res.Labels = append(res.Labels, fmt.Sprintf("view_mode=%d", v.mode))
	if v.virtual {
		res.Labels = append(res.Labels, "virtual_root")
	} else if c.I["subroot"] > 0 {
		if root.Inline() != nil {
			res.Labels = append(res.Labels, "walk_starts_at_inline_node")
		} else {
			res.Labels = append(res.Labels, "walk_starts_at_inner_block")
		}
	}
	prunedInner := false
	for i, e := range want {
		if !e.post && p.prune[preOrdinal(want, i)] && e.node.ChildCount() > 0 {
			prunedInner = true
		}
	}
	aborted := p.abort >= 0 && p.abort < countPost(want)
	if prunedInner {
		res.Labels = append(res.Labels, "prunes_inner_node")
	}
	if aborted {
		res.Labels = append(res.Labels, "aborts_before_end")
	}
	if p.nilPre {
		res.Labels = append(res.Labels, "nil_pre")
	}
	if p.nilPos {
		res.Labels = append(res.Labels, "nil_post")
	}
	if d := treeDepth(root, v); d >= 17 {
		res.Labels = append(res.Labels, "depth>=17")
		if d >= 33 {
			res.Labels = append(res.Labels, "depth>=33")
		}
	}
	if nodes >= 200 {
		res.Labels = append(res.Labels, "callbacks>=200")
	}
	res.Nontrivial = nodes >= 10 && (prunedInner || aborted || v.virtual || v.mode >= 2)

	if cursorErr != nil {
		res.Err = cursorErr
		return res
	}
	if len(got) != len(want) {
		res.Err = fmt.Errorf("Walk made %d callbacks, the reference walker %d; first difference at %d", len(got), len(want), firstDiff(got, want))
		return res
	}
	for i := range want {
		if got[i] != want[i] {
			res.Err = fmt.Errorf("callback %d: Walk %s, reference %s", i, got[i], want[i])
			return res
		}
	}
	return res
}

func treeDepth(n cm.Node, v *view) int {
	pv := *v
	best := 0
	for i, c := 0, pv.count(n); i < c; i++ {
		if d := treeDepth(pv.child(n, i), v); d > best {
			best = d
		}
	}
	return best + 1
}

func preOrdinal(evs []event, i int) int {
	n := 0
	for j := 0; j < i; j++ {
		if !evs[j].post {
			n++
		}
	}
	return n
}

func countPost(evs []event) int {
	n := 0
	for _, e := range evs {
		if e.post {
			n++
		}
	}
	return n
}

func firstDiff(a, b []event) int {
	for i := 0; i < len(a) && i < len(b); i++ {
		if a[i] != b[i] {
			return i
		}
	}
	if len(a) < len(b) {
		return len(a)
	}
	return len(b)
}

func genCase(t *rapid.T) harness.Case {
	var c harness.Case
	if rapid.IntRange(0, 4).Draw(t, "deep") == 0 {
		c = harness.Case{In: gen.Deep().Draw(t, "deepin")}
	} else {
		c = harness.Case{In: gen.Doc().Draw(t, "in")}
	}
	c.SetI("mode", rapid.IntRange(0, 5).Draw(t, "mode"))
	if rapid.IntRange(0, 2).Draw(t, "virtual") == 0 {
		c.SetI("virtual", 1)
	}
	c.SetI("root", rapid.IntRange(0, 7).Draw(t, "root"))
	if rapid.IntRange(0, 3).Draw(t, "sub") == 0 {
		c.SetI("subroot", rapid.IntRange(1, 60).Draw(t, "subroot"))
	}
	switch rapid.IntRange(0, 9).Draw(t, "nil") {
	case 0:
		c.SetI("nilpre", 1)
	case 1:
		c.SetI("nilpost", 1)
	case 2:
		c.SetI("nilpre", 1)
		c.SetI("nilpost", 1)
	}
	// ordinals are mostly small (every tree has those), sometimes large (deep and wide trees)
	maxOrd := 40
	if rapid.IntRange(0, 3).Draw(t, "farord") == 0 {
		maxOrd = 400
	}
	np := rapid.IntRange(0, 4).Draw(t, "nprune")
	var prune []int
	for i := 0; i < np; i++ {
		prune = append(prune, rapid.IntRange(0, maxOrd).Draw(t, "prune"))
	}
	c.SetL("prune", prune)
	if rapid.Bool().Draw(t, "hasabort") {
		c.SetI("abort", rapid.IntRange(0, maxOrd).Draw(t, "abort"))
	}
	if rapid.IntRange(0, 3).Draw(t, "nested?") == 0 {
		c.SetI("nested", rapid.IntRange(0, 25).Draw(t, "nested"))
	}
	return c
}

const rule = "tree = Parse(G1/G2/G3 input), one root block, any inner node of it (block or inline) or a virtual root over all root blocks, x policy (set of Pre ordinals that prune, Post ordinal that aborts, nil Pre/Post, child-function view: defaults / identity / reversed / truncated / ChildCount only / Child only); one case in five is a tree that is deep (up to 48 nested containers, 40 nested inlines) or wide (up to 150 siblings) by construction; oracle = recursive reference walker's event list (kind, node, parent, index, enclosing block) plus cursor invariants; non-trivial = >= 10 callbacks and the policy prunes a node with children, aborts before the end, uses a virtual root or a non-identity view"

// veryDeep: documents nested thousands of levels deep (the parser sets no
// limit, so Walk has none either): block quotes, list items and both mixed,
// under a handful of policies.
func veryDeep(t *testing.T, plan harness.Plan) {
	const name = "very_deep"
	if harness.Cfg().Shard != 0 {
		return
	}
	depths := []int{1000, 4096, 4200}
	if harness.Cfg().Tier == "thorough" {
		depths = []int{1000, 2047, 2048, 2049, 4095, 4096, 4097, 6000, 8200, 16500}
	}
	n := 0
	for _, d := range depths {
		docs := []string{strings.Repeat(">", d) + " a *b* c\n", strings.Repeat("- ", d/2) + "a `b`\n", strings.Repeat("> - ", d/3) + "# h\n"}
		for _, doc := range docs {
			for pi := 0; pi < 6; pi++ {
				c := harness.Case{In: []byte(doc)}
				c.SetI("mode", []int{0, 0, 1, 0, 0, 2}[pi])
				switch pi {
				case 1:
					c.SetL("prune", []int{d - 3})
				case 2:
					c.SetI("abort", 2)
				case 3:
					c.SetI("nilpre", 1)
				case 4:
					c.SetI("nilpost", 1)
					c.SetI("nested", d/2)
				case 5:
					c.SetI("virtual", 1)
					c.SetI("abort", d)
				}
				res := prop(c)
				n++
				harness.Count(name, &c, true, fmt.Sprintf("depth_%d", d))
				if res.Err != nil && harness.Fail(t, plan, name, c, res.Err) {
					return
				}
			}
		}
	}
	harness.SetExhaustive(name, fmt.Sprintf("%d (document, policy) pairs: block quotes, list items and both mixed, nested %v levels deep, under six policies", n, depths))
}

func TestProperty(t *testing.T) {
	plan := harness.Plan{Prop: "C18", Checks: []harness.Check{
		{Name: "walk", Quick: 100000, Thorough: 1000000, Gen: genCase, Prop: prop, Rule: rule},
		{Name: "very_deep", Prop: prop, Rule: "enumerated: documents nested 1000, 4096 and 4200 levels deep (thorough: ten depths up to 16500, around 2048 and 4096) made of block quotes, of list items and of both, under six policies (full walk, prune near the bottom, early abort, nil Pre, nil Post with a nested walk half way down, virtual root with a late abort); oracle as for walk"},
	}}
	plan.After = func(t *testing.T) { veryDeep(t, plan) }
	harness.Run(t, plan)
}
