// Package c08 decides property C08: the streaming parser (NextBlock + Extract +
// Rewrite) equals the in-memory parser under any read schedule, and under a
// reader fault after k bytes delivers exactly the blocks of the first k bytes
// and then that error, persistently.
package c08

import (
	"bufio"
	"bytes"
	"errors"
	"fmt"
	"io"
	"strings"
	"testing"
	"testing/iotest"

	"pgregory.net/rapid"
	"verif/internal/gen"
	"verif/internal/harness"
	"verif/internal/tree"
	cm "zombiezen.com/go/commonmark"
)

func TestMain(m *testing.M) { harness.Main(m) }

type customErr struct{ code int }

func (e *customErr) Error() string { return fmt.Sprintf("custom reader error %d", e.code) }

// eofWrapper is a failure whose chain leads to io.EOF without being io.EOF: a
// truncated stream reported by a layer that annotates errors. It is a
// failure, not the end of input.
type eofWrapper struct{ at int }

func (e *eofWrapper) Error() string { return fmt.Sprintf("short read at %d", e.at) }
func (e *eofWrapper) Unwrap() error { return io.EOF }

var errValues = []error{gen.ErrInjected, io.ErrUnexpectedEOF, &customErr{7}, io.ErrClosedPipe, fmt.Errorf("wrapped: %w", gen.ErrInjected),
	fmt.Errorf("reading body: %w", io.EOF), &eofWrapper{5}, io.ErrNoProgress, io.ErrShortBuffer}

// streamAll drives the streaming entry point to its end and a few calls
// beyond, returning the blocks and the terminal error.
func streamAll(r *gen.SchedReader, extra int, limit int) (blocks []*cm.RootBlock, refs cm.ReferenceMap, term error, err error) {
	p := cm.NewBlockParser(r)
	refs = make(cm.ReferenceMap)
	for {
		b, e := p.NextBlock()
		if e != nil {
			if b != nil {
				return nil, nil, nil, fmt.Errorf("NextBlock returned both a block and error %v", e)
			}
			term = e
			break
		}
		if b == nil {
			return nil, nil, nil, fmt.Errorf("NextBlock returned (nil, nil)")
		}
		blocks = append(blocks, b)
		refs.Extract(b.Source, b.AsNode())
		if len(blocks) > limit {
			return nil, nil, nil, fmt.Errorf("NextBlock delivered more than %d blocks", limit)
		}
	}
	readsAtEnd := r.Reads
	for i := 0; i < extra; i++ {
		b, e := p.NextBlock()
		if b != nil || e == nil {
			return nil, nil, nil, fmt.Errorf("call %d after the end returned (%v, %v); want (nil, %v) again", i+1, b != nil, e, term)
		}
		if !errors.Is(e, term) && !errors.Is(term, e) {
			return nil, nil, nil, fmt.Errorf("call %d after the end returned %v; first terminal error was %v", i+1, e, term)
		}
	}
	if r.Reads != readsAtEnd {
		return nil, nil, nil, fmt.Errorf("the reader was called %d more times after it had reported %v", r.Reads-readsAtEnd, term)
	}
	if r.AfterError > 0 {
		return nil, nil, nil, fmt.Errorf("the reader was called %d times after it had returned an error", r.AfterError)
	}
	ip := &cm.InlineParser{ReferenceMatcher: refs}
	for _, b := range blocks {
		ip.Rewrite(b)
	}
	return blocks, refs, term, nil
}

func compare(got []*cm.RootBlock, gotRefs cm.ReferenceMap, in []byte) error {
	want, wantRefs := cm.Parse(append([]byte(nil), in...))
	if len(got) != len(want) {
		return fmt.Errorf("streaming delivered %d blocks, in-memory parse has %d", len(got), len(want))
	}
	for i := range want {
		a, b := tree.DumpRoot(got[i], 0, 0), tree.DumpRoot(want[i], 0, 0)
		if a != b {
			return fmt.Errorf("block %d differs:\nstreaming:\n%s\nin-memory:\n%s", i, a, b)
		}
	}
	if a, b := tree.DumpRefs(gotRefs), tree.DumpRefs(wantRefs); a != b {
		return fmt.Errorf("reference maps differ:\nstreaming:\n%s\nin-memory:\n%s", a, b)
	}
	return nil
}

func one(in []byte, sched []int, eofData bool, fault int, errIdx int, extra int) error {
	r := gen.NewSchedReader(in, sched, eofData, fault)
	E := errValues[errIdx%len(errValues)]
	r.Err = E
	blocks, refs, term, err := streamAll(r, extra, len(in)+2)
	if err != nil {
		return err
	}
	if fault < 0 {
		if term != io.EOF {
			return fmt.Errorf("terminal error %v, want io.EOF", term)
		}
		return compare(blocks, refs, in)
	}
	if !errors.Is(term, E) || term == io.EOF {
		return fmt.Errorf("reader failed with %v after %d bytes but NextBlock reported %v", E, fault, term)
	}
	k := fault
	if k > len(in) {
		k = len(in)
	}
	if err := compare(blocks, refs, in[:k]); err != nil {
		return fmt.Errorf("fault after %d bytes: %v", k, err)
	}
	return nil
}

// stdReader builds one of the standard library's readers over in[k:] (kind
// 1-8), some of them positioned at k by consuming or seeking in a reader over
// the whole input: a parser that looks at a reader's type or size must still
// see exactly the unread bytes.
func stdReader(kind int, in []byte, k int) io.Reader {
	switch kind {
	case 1:
		return bytes.NewReader(in[k:])
	case 2:
		r := bytes.NewReader(in)
		io.CopyN(io.Discard, r, int64(k))
		return r
	case 3:
		r := strings.NewReader(string(in))
		r.Seek(int64(k), io.SeekStart)
		return r
	case 4:
		return io.NewSectionReader(bytes.NewReader(in), int64(k), int64(len(in)-k))
	case 5:
		return bufio.NewReaderSize(bytes.NewReader(in[k:]), 16)
	case 6:
		return iotest.DataErrReader(bytes.NewReader(in[k:]))
	case 7:
		return iotest.HalfReader(bytes.NewReader(in[k:]))
	default:
		return iotest.OneByteReader(strings.NewReader(string(in[k:])))
	}
}

func propStdReader(c harness.Case) harness.Result {
	in, k := c.In, c.I["skip"]
	if k > len(in) {
		k = len(in)
	}
	res := harness.Result{Nontrivial: len(in)-k >= 2, Labels: []string{fmt.Sprintf("reader_kind=%d", c.I["reader"])}}
	if k > 0 {
		res.Labels = append(res.Labels, "reader_positioned_past_the_start")
	}
	p := cm.NewBlockParser(stdReader(c.I["reader"], in, k))
	refs := make(cm.ReferenceMap)
	var blocks []*cm.RootBlock
	var term error
	for {
		b, e := p.NextBlock()
		if e != nil {
			term = e
			break
		}
		blocks = append(blocks, b)
		refs.Extract(b.Source, b.AsNode())
		if len(blocks) > len(in)+2 {
			res.Err = fmt.Errorf("more blocks than bytes")
			return res
		}
	}
	if term != io.EOF {
		res.Err = fmt.Errorf("terminal error %v, want io.EOF", term)
		return res
	}
	for i := 0; i < 2; i++ {
		if b, e := p.NextBlock(); b != nil || e != io.EOF {
			res.Err = fmt.Errorf("call %d after the end returned (%v, %v), want (nil, io.EOF)", i+1, b != nil, e)
			return res
		}
	}
	ip := &cm.InlineParser{ReferenceMatcher: refs}
	for _, b := range blocks {
		ip.Rewrite(b)
	}
	res.Err = compare(blocks, refs, in[k:])
	return res
}

func genStdReader(t *rapid.T) harness.Case {
	var c harness.Case
	if rapid.IntRange(0, 9).Draw(t, "big") == 0 {
		c.In = gen.LongDoc(9000, 30000).Draw(t, "in")
	} else {
		c.In = gen.Doc().Draw(t, "in")
	}
	c.SetI("reader", rapid.IntRange(1, 8).Draw(t, "reader"))
	if rapid.Bool().Draw(t, "positioned") {
		c.SetI("skip", rapid.IntRange(0, len(c.In)).Draw(t, "skip"))
	}
	return c
}

// genLargeBlock: one root block of 300 KB to just under the 1 MiB limit of the
// streaming parser (code, HTML or quoted lines: kinds whose parsing is linear),
// between two small blocks.
func genLargeBlock(t *rapid.T) harness.Case {
	size := []int{300000, 345000, 352000, 400000, 524288, 700000, 1000000, 1040000}[rapid.IntRange(0, 7).Draw(t, "size")]
	var sb strings.Builder
	sb.WriteString("first\n\n")
	switch rapid.IntRange(0, 5).Draw(t, "kind") {
	case 4, 5:
		// not a block but a gap: a run of blank lines (which belong to no block
		// and may be longer than any block is allowed to be)
		blank := []string{"\n", " \n", "\r\n", "\t\n"}[rapid.IntRange(0, 3).Draw(t, "blank")]
		sb.WriteString(strings.Repeat(blank, 2*size/len(blank)))
	case 0:
		sb.WriteString("```\n" + strings.Repeat("code line here\n", size/15) + "```\n")
	case 1:
		sb.WriteString("<div>\n" + strings.Repeat("<b>x</b> text\n", size/14))
	case 2:
		sb.WriteString("> " + strings.Repeat("quoted line\n> ", size/14) + "end\n")
	default:
		sb.WriteString(strings.Repeat("    indented code\n", size/18))
	}
	sb.WriteString("\nlast [r]\n\n[r]: /u\n")
	c := harness.Case{In: []byte(sb.String())}
	switch rapid.IntRange(0, 2).Draw(t, "lsched") {
	case 1:
		sz := []int{8192, 4096, 65536, 1000}[rapid.IntRange(0, 3).Draw(t, "chunk")]
		var s []int
		for n := 0; n < len(c.In); n += sz {
			s = append(s, sz)
		}
		c.SetL("sched", s)
	case 2:
		c.SetI("fault", rapid.IntRange(0, len(c.In)).Draw(t, "fk"))
		c.SetI("err", rapid.IntRange(0, len(errValues)-1).Draw(t, "err"))
	}
	return c
}

func cutsInteresting(in []byte, sched []int) bool {
	pos := 0
	for _, n := range sched {
		pos += n
		if pos <= 0 || pos >= len(in) {
			continue
		}
		a, b := in[pos-1], in[pos]
		if (a == '\r' && b == '\n') || (b >= 0x80 && b < 0xc0) || (a == 0 && b == 0) || (a != '\n' && a != '\r') {
			return true
		}
	}
	return false
}

func prop(c harness.Case) harness.Result {
	fault := -1
	if v, ok := c.I["fault"]; ok {
		fault = v
	}
	sched := c.L["sched"]
	res := harness.Result{Labels: gen.Classify(c.In)}
	res.Err = one(c.In, sched, c.I["eofdata"] == 1, fault, c.I["err"], 1+c.I["extra"])
	if len(sched) >= 2 && cutsInteresting(c.In, sched) {
		res.Nontrivial = true
		res.Labels = append(res.Labels, "schedule_cuts_inside_line")
	}
	if fault > 0 && fault < len(c.In) {
		res.Nontrivial = true
		res.Labels = append(res.Labels, "fault_inside_input")
	} else if fault >= 0 {
		res.Labels = append(res.Labels, "fault_at_edge")
	}
	return res
}

// propEnum enumerates, for one small input, every fault point k in 0..len and
// every two-cut schedule (fault_enumeration).
func propEnum(c harness.Case) harness.Result {
	in := c.In
	res := harness.Result{Nontrivial: len(in) >= 4, Labels: gen.Classify(in)}
	n := len(in)
	count := 0
	for k := 0; k <= n; k++ {
		for _, eofData := range []bool{false, true} {
			if err := one(in, nil, eofData, k, k, 3); err != nil {
				res.Err = fmt.Errorf("fault k=%d eofWithData=%v: %v", k, eofData, err)
				return res
			}
			// the same fault with one-byte reads
			ones := make([]int, n)
			for i := range ones {
				ones[i] = 1
			}
			if err := one(in, ones, eofData, k, k+1, 2); err != nil {
				res.Err = fmt.Errorf("fault k=%d one-byte reads eofWithData=%v: %v", k, eofData, err)
				return res
			}
			count += 2
		}
	}
	for i := 0; i <= n; i++ {
		for j := i; j <= n; j++ {
			sched := []int{i, j - i}
			if err := one(in, sched, (i+j)%2 == 0, -1, 0, 1); err != nil {
				res.Err = fmt.Errorf("two-cut schedule %v: %v", sched, err)
				return res
			}
			count++
		}
	}
	harness.Label("enumerate", "schedules_and_faults_enumerated", int64(count))
	return res
}

func genCase(long bool) func(t *rapid.T) harness.Case {
	return func(t *rapid.T) harness.Case {
		var c harness.Case
		if long {
			c.In = gen.Long(6000, 30000).Draw(t, "in")
		} else {
			c.In = gen.Doc().Draw(t, "in")
		}
		c.SetL("sched", gen.Schedule(t, c.In))
		if rapid.Bool().Draw(t, "eofdata") {
			c.SetI("eofdata", 1)
		}
		if rapid.IntRange(0, 2).Draw(t, "hasfault") == 0 {
			c.SetI("fault", gen.FaultOffset(t, c.In))
			c.SetI("err", rapid.IntRange(0, len(errValues)-1).Draw(t, "err"))
		}
		c.SetI("extra", rapid.IntRange(0, 3).Draw(t, "extra"))
		return c
	}
}

// genLongDoc: documents of many root blocks that need several refills of the
// streaming buffer, read in large pieces (whatever the parser asks for, or
// fixed sizes around the 8 KiB chunk), so that blocks handed out early are
// still held by the caller while the buffer behind them is refilled.
func genLongDoc(t *rapid.T) harness.Case {
	var c harness.Case
	c.In = gen.LongDoc(20000, 120000).Draw(t, "in")
	switch rapid.IntRange(0, 4).Draw(t, "lsched") {
	case 0: // as much as the parser asks for
	case 1, 2:
		sz := []int{8192, 8191, 4096, 8000, 1000, 12000, 100}[rapid.IntRange(0, 6).Draw(t, "chunk")]
		var s []int
		for n := 0; n < len(c.In); n += sz {
			s = append(s, sz)
		}
		c.SetL("sched", s)
	default:
		c.SetL("sched", gen.Schedule(t, c.In))
	}
	if rapid.Bool().Draw(t, "eofdata") {
		c.SetI("eofdata", 1)
	}
	if rapid.IntRange(0, 3).Draw(t, "hasfault") == 0 {
		c.SetI("fault", rapid.IntRange(0, len(c.In)).Draw(t, "fk"))
		c.SetI("err", rapid.IntRange(0, len(errValues)-1).Draw(t, "err"))
	}
	return c
}

func genSmall(t *rapid.T) harness.Case {
	for tries := 0; ; tries++ {
		var in []byte
		if rapid.Bool().Draw(t, "src") {
			in = gen.Lines().Draw(t, "in")
		} else {
			in = gen.Doc().Draw(t, "in")
		}
		if len(in) > 48 {
			in = in[:48]
		}
		return harness.Case{In: in}
	}
}

const rule = "input (G1/G2/G3, or long mode) x G5 read schedule x optional reader fault (k, error value); oracle = structural equality (every accessor, span, Source, offsets, line, reference map) with Parse(input) or Parse(input[:k]); non-trivial = schedule with >= 2 reads that cuts inside a line / CRLF / multi-byte character / NUL run, or a fault strictly inside the input"

func TestProperty(t *testing.T) {
	harness.Run(t, harness.Plan{Prop: "C08", Checks: []harness.Check{
		{Name: "schedule_fault", Quick: 50000, Thorough: 600000, Gen: genCase(false), Prop: prop, Rule: rule},
		{Name: "long", Quick: 150, Thorough: 2000, Gen: genCase(true), Prop: prop, Rule: "long mode 6-30 KB (buffer grows past the 8 KiB window): " + rule},
		{Name: "long_documents", Quick: 120, Thorough: 1500, Gen: genLongDoc, Prop: prop, Rule: "documents of 20-120 KB made of hundreds of root blocks (generated pieces repeated in turn), read as much at a time as the parser asks for or in fixed chunks around 8 KiB, all blocks held until the end and compared then: " + rule},
		{Name: "std_readers", Quick: 12000, Thorough: 150000, Gen: genStdReader, Prop: propStdReader, Rule: "the input delivered by the standard library's readers (bytes.Reader, strings.Reader, io.SectionReader, bufio.Reader, iotest.DataErrReader / HalfReader / OneByteReader), half of the time positioned k bytes past the start by earlier reads or a Seek: the blocks must be those of Parse(input[k:]) and the end io.EOF, persistently"},
		{Name: "large_blocks", Quick: 10, Thorough: 60, Gen: genLargeBlock, Prop: prop, Rule: "one root block of 300 KB to just under the streaming parser's 1 MiB limit (fenced or indented code, HTML block, quote), or a run of blank lines of 0.6-2 MB, between small blocks, under full reads, fixed chunks or a fault: " + rule},
		{Name: "enumerate", Quick: 600, Thorough: 8000, Gen: genSmall, Prop: propEnum, Rule: "inputs truncated to <= 48 bytes; for each, EVERY fault point k in 0..len (single read and one-byte reads, error with and without data) and EVERY two-cut schedule is run; non-trivial = input of >= 4 bytes"},
	}})
}
