// Package c05 decides property C05 (see DESIGN.md section 6) with the shared
// tree oracle of internal/tree over generated inputs.
package c05

import (
	"testing"

	"verif/internal/findings"
	"verif/internal/gen"
	"verif/internal/harness"
	"verif/internal/treeprop"
)

func TestMain(m *testing.M) { harness.Main(m) }

func TestProperty(t *testing.T) {
	harness.Run(t, treeprop.Plan("C05", findings.Suppressor("C05")))
}

// FuzzProperty is the native coverage-guided fuzz entry (thorough tier).
func FuzzProperty(f *testing.F) {
	harness.FuzzTarget(f, treeprop.Plan("C05", findings.Suppressor("C05")), "memory", gen.SeedCorpus())
}
