// Package c19 decides property C19: concurrent Parse calls on distinct inputs,
// and concurrent Render / Format / Walk calls on one shared tree, are free of
// data races and give the sequential results. Built and run with -race; the
// race detector's log (GORACE=log_path) is inspected after every batch.
package c19

import (
	"bytes"
	"fmt"
	"os"
	"path/filepath"
	"runtime"
	"sort"
	"strconv"
	"strings"
	"sync"
	"testing"
	"verif/internal/entities"

	"pgregory.net/rapid"
	"verif/internal/gen"
	"verif/internal/harness"
	"verif/internal/tree"
	cm "zombiezen.com/go/commonmark"
	"zombiezen.com/go/commonmark/format"
)

func TestMain(m *testing.M) { harness.Main(m) }

func raceLogSize() int64 {
	prefix := os.Getenv("VERIF_RACELOG")
	if prefix == "" {
		return 0
	}
	files, _ := filepath.Glob(prefix + ".*")
	var n int64
	for _, f := range files {
		if st, err := os.Stat(f); err == nil {
			n += st.Size()
		}
	}
	return n
}

func raceLogTail() string {
	prefix := os.Getenv("VERIF_RACELOG")
	files, _ := filepath.Glob(prefix + ".*")
	var sb strings.Builder
	for _, f := range files {
		b, _ := os.ReadFile(f)
		if len(b) > 3000 {
			b = b[:3000]
		}
		sb.Write(b)
	}
	return sb.String()
}

type config struct {
	soft   cm.SoftBreakBehavior
	ignore bool
	filter int
}

var filterFuncs = []func([]byte) bool{
	nil,
	cm.FilterTagGFM,
	func(tag []byte) bool { return len(tag) > 0 && tag[0] == 's' },
	func([]byte) bool { return true },
}

// fixedMatcher is a read-only reference matcher shared by goroutines.
type fixedMatcher struct{}

func (fixedMatcher) MatchReference(l string) bool { return len(l)%2 == 0 }

func allConfigs() []config {
	var cs []config
	for _, sb := range []cm.SoftBreakBehavior{cm.SoftBreakPreserve, cm.SoftBreakSpace, cm.SoftBreakHarden} {
		for _, ign := range []bool{false, true} {
			for f := range filterFuncs {
				cs = append(cs, config{sb, ign, f})
			}
		}
	}
	return cs
}

func render(blocks []*cm.RootBlock, refs cm.ReferenceMap, c config) string {
	r := &cm.HTMLRenderer{ReferenceMap: refs, SoftBreakBehavior: c.soft, IgnoreRaw: c.ignore, FilterTag: filterFuncs[c.filter]}
	var buf bytes.Buffer
	r.Render(&buf, blocks)
	return buf.String()
}

// plainSlowWriter has no method but Write; it copies what it is given and
// yields the processor, so that calls overlap.
type plainSlowWriter struct{ b []byte }

func (w *plainSlowWriter) Write(p []byte) (int, error) {
	w.b = append(w.b, p...)
	runtime.Gosched()
	return len(p), nil
}

// sharedOpts is one WalkOptions value used by every goroutine. Its callbacks
// keep no state: they only check that the cursor they are given is consistent
// (the parent's child at the index is the node) and report through a channel
// that is read after the walk.
var sharedBad = make(chan string, 64)

var sharedOpts = &cm.WalkOptions{
	Pre: func(c *cm.Cursor) bool {
		if c.Index() >= 0 && c.Parent().Child(c.Index()) != c.Node() {
			select {
			case sharedBad <- "Pre: Parent().Child(Index()) != Node()":
			default:
			}
		}
		runtime.Gosched()
		return true
	},
	Post: func(c *cm.Cursor) bool {
		if c.Index() >= 0 && c.Parent().Child(c.Index()) != c.Node() {
			select {
			case sharedBad <- "Post: Parent().Child(Index()) != Node()":
			default:
			}
		}
		return true
	},
}

func sharedWalk(n cm.Node, opts *cm.WalkOptions) string {
	cm.Walk(n, opts)
	select {
	case s := <-sharedBad:
		return s
	default:
		return ""
	}
}

type failingWriter struct{}

func (failingWriter) Write(p []byte) (int, error) { return 0, fmt.Errorf("writer failed") }

type slowWriter struct{ buf bytes.Buffer }

func (w *slowWriter) Write(p []byte) (int, error) {
	runtime.Gosched()
	n, err := w.buf.Write(p)
	runtime.Gosched()
	return n, err
}

// abortedWalks walks every root block a few times and stops each walk early: by
// Post returning false at the k-th node, and by Pre pruning every other node.
func abortedWalks(blocks []*cm.RootBlock, salt int) {
	for bi, b := range blocks {
		stopAt := 1 + (bi+salt)%7
		n := 0
		cm.Walk(b.AsNode(), &cm.WalkOptions{
			Pre:  func(c *cm.Cursor) bool { return true },
			Post: func(c *cm.Cursor) bool { n++; return n < stopAt },
		})
		m := 0
		cm.Walk(b.AsNode(), &cm.WalkOptions{
			Pre: func(c *cm.Cursor) bool { m++; return m%2 == 1 },
		})
	}
}

func walkSig(blocks []*cm.RootBlock) string {
	var sb strings.Builder
	for _, b := range blocks {
		cm.Walk(b.AsNode(), &cm.WalkOptions{Pre: func(c *cm.Cursor) bool {
			if bl := c.Node().Block(); bl != nil {
				fmt.Fprintf(&sb, "B%d%v", bl.Kind(), bl.Span())
			} else if in := c.Node().Inline(); in != nil {
				fmt.Fprintf(&sb, "I%d%v", in.Kind(), in.Span())
			}
			return true
		}})
	}
	return sb.String()
}

func dumpAll(blocks []*cm.RootBlock, refs cm.ReferenceMap) string {
	var sb strings.Builder
	for _, b := range blocks {
		sb.WriteString(tree.DumpRoot(b, 0, 0))
	}
	sb.WriteString(tree.DumpRefs(refs))
	return sb.String()
}

// the raw HTML with upper-case tag names makes the tag filter use its
// lower-casing scratch buffer
const upperHTML = "<DIV>\n<SCRIPT>x</SCRIPT> <Style> <B>\n</DIV>\n\n"

// rarePaths exercises code paths that typical inputs do not reach and where a
// hoisted scratch buffer or cache would sit: long destinations that need
// percent-encoding (each different, so that a shared buffer shows as a wrong
// result too), non-ASCII and long labels, long titles with references, info
// strings with escapes, autolinks that need encoding, long delimiter runs.
func rarePaths(n int) string {
	var sb strings.Builder
	for i := 0; i < n; i++ {
		tag := fmt.Sprintf("%c", 'a'+i%26)
		long := strings.Repeat("é"+tag+" ", 30)
		fmt.Fprintf(&sb, "[l%d](</p/%s?q=%d> \"t %s &amp; &#x22;\") ![i%d](</img/%s%d>) <http://e.x/%s%d>\n\n", i, long, i, long, i, long, i, strings.ReplaceAll(long, " ", "%"), i)
		fmt.Fprintf(&sb, "[Straße %s ΣΑΣ %d]: </d/%s>\n\n[straße %s σας %d] [STRASSE %s ΣΑΣ %d][]\n\n", tag, i, long, tag, i, tag, i)
		fmt.Fprintf(&sb, "``` la\\*ng&amp;%d %s\ncode\n```\n\n%s a %s\n\n", i, long, strings.Repeat("*", 40+i), strings.Repeat("_", 40+i))
	}
	return sb.String()
}

func runBatch(inputs [][]byte, goroutines int) error {
	// distinct rare-path documents are parsed concurrently too
	for i := 0; i < 3; i++ {
		inputs = append(inputs[:len(inputs):len(inputs)], []byte(rarePaths(i+1)))
	}
	// documents with NULs (Parse must replace them without touching the caller's bytes)
	inputs = append(inputs[:len(inputs):len(inputs)], []byte("a\x00b\n\n[x\x00]: /u\n\n[x\x00] \x00\x00\n"), []byte("\x00\n> \x00 *a\x00*\n"))
	// large documents (hundreds of root blocks, tens of kilobytes), several of
	// them parsed at once: anything the library does only above a size (work
	// handed to helper goroutines, pooled large buffers, a shared limiter) is
	// otherwise never reached by concurrent calls. Built from the batch's own
	// inputs, rotated and numbered so that the documents are distinct.
	base := len(inputs)
	small := inputs[:base:base]
	for k := 0; k < 3; k++ {
		var big []byte
		for j := 0; j < 40+15*k; j++ {
			piece := inputs[(j+k)%base]
			if len(piece) > 200 {
				piece = piece[:200]
			}
			big = append(big, piece...)
			big = append(big, fmt.Sprintf("\n\npara %d %d *e* [l%d] `c`\n\n- i%d\n\n", k, j, j%5, j)...)
		}
		inputs = append(inputs[:len(inputs):len(inputs)], big)
	}
	// (a) distinct inputs parsed concurrently. The inputs of the in-memory
	// parses are adjacent sub-slices of one buffer (each slice's capacity runs
	// on over its neighbours), as when a caller cuts documents out of one
	// file: a parse that writes to its input, or beyond its length, races
	// with its neighbours' parses
	var arena []byte
	offs := make([]int, len(inputs)+1)
	for i, in := range inputs {
		offs[i] = len(arena)
		arena = append(arena, in...)
	}
	offs[len(inputs)] = len(arena)
	arenaCopy := append([]byte(nil), arena...)
	// (the sequential results are computed after the concurrent phase, so that
	// nothing the library might compute once and keep - a table filled on
	// first use, a cache of answers - is warm when the goroutines start)
	gotParse := make([]string, len(inputs))
	gotStream := make([]string, len(inputs))
	errs := make(chan error, goroutines*8+len(inputs)*8+16)
	var wg sync.WaitGroup
	start := make(chan struct{})
	for i := range inputs {
		wg.Add(2)
		go func(i int) {
			defer wg.Done()
			defer func() {
				if p := recover(); p != nil {
					errs <- fmt.Errorf("panic on a goroutine: %v", p)
				}
			}()
			<-start
			b, r := cm.Parse(arena[offs[i]:offs[i+1]])
			gotParse[i] = dumpAll(b, r)
		}(i)
		go func(i int) {
			defer wg.Done()
			defer func() {
				if p := recover(); p != nil {
					errs <- fmt.Errorf("panic on a goroutine: %v", p)
				}
			}()
			<-start
			b, r, err := tree.StreamParse(bytes.NewReader(inputs[i]))
			if err != nil {
				errs <- fmt.Errorf("concurrent streaming parse of input %d: %v", i, err)
				return
			}
			gotStream[i] = dumpAll(b, r)
		}(i)
	}
	// (a') the streaming API with one InlineParser value shared by all
	// goroutines (it is configuration: a matcher), each on its own input
	sharedIP := &cm.InlineParser{ReferenceMatcher: fixedMatcher{}}
	wantShared := make([]string, len(inputs))
	rewriteAll := func(in []byte) (string, error) {
		p := cm.NewBlockParser(bytes.NewReader(in))
		var sb strings.Builder
		for {
			b, err := p.NextBlock()
			if err != nil {
				if err.Error() != "EOF" {
					return "", err
				}
				return sb.String(), nil
			}
			sharedIP.Rewrite(b)
			sb.WriteString(tree.DumpRoot(b, 0, 0))
		}
	}
	gotShared := make([]string, len(inputs))
	for i := range inputs {
		wg.Add(1)
		go func(i int) {
			defer wg.Done()
			defer func() {
				if p := recover(); p != nil {
					errs <- fmt.Errorf("panic on a goroutine: %v", p)
				}
			}()
			<-start
			got, err := rewriteAll(inputs[i])
			if err != nil {
				errs <- fmt.Errorf("concurrent streaming parse of input %d with a shared InlineParser: %v", i, err)
			} else {
				gotShared[i] = got
			}
		}(i)
	}
	close(start)
	wg.Wait()
	if !bytes.Equal(arena, arenaCopy) {
		return fmt.Errorf("the buffer holding the inputs was modified by the concurrent parses")
	}
	for i, in := range inputs {
		if wantShared[i], _ = rewriteAll(in); gotShared[i] != "" && gotShared[i] != wantShared[i] {
			return fmt.Errorf("concurrent Rewrite of input %d through a shared InlineParser differs from the sequential result", i)
		}
		b, r := cm.Parse(append([]byte(nil), in...))
		want := dumpAll(b, r)
		if gotParse[i] != want {
			return fmt.Errorf("concurrent Parse of input %d differs from the sequential result", i)
		}
		if gotStream[i] != "" && gotStream[i] != want {
			return fmt.Errorf("concurrent streaming parse of input %d differs from the sequential Parse", i)
		}
	}

	// (b) one shared tree rendered, formatted and walked concurrently
	var doc []byte
	doc = append(doc, upperHTML...)
	doc = append(doc, rarePaths(2+len(small)%3)...)
	for _, in := range small {
		doc = append(doc, in...)
		doc = append(doc, "\n\n"...)
	}
	// the expected results come from a separate parse of the same bytes: the
	// shared tree and its reference map are fresh when the goroutines start,
	// so anything computed lazily on first use (a cache in a node, in the map,
	// in the renderer) is computed by several goroutines at once
	blocks0, refs0 := cm.Parse(append([]byte(nil), doc...))
	cfgs := allConfigs()
	wantRender := make([]string, len(cfgs))
	for i, c := range cfgs {
		wantRender[i] = render(blocks0, refs0, c)
	}
	var fb bytes.Buffer
	format.Format(&fb, blocks0)
	wantFormat := fb.String()
	wantWalk := walkSig(blocks0)
	// walks cut short before the concurrent phase (on the other tree): whatever
	// an aborted walk leaves behind in the package must not reach later walks
	abortedWalks(blocks0, 0)
	blocks, refs := cm.Parse(doc)
	wantDump := dumpAll(blocks, refs)
	wantRefs := fmt.Sprintf("%#v", map[string]cm.LinkDefinition(refs))
	// one shared renderer value per configuration, used by many goroutines
	shared := make([]*cm.HTMLRenderer, len(cfgs))
	for i, c := range cfgs {
		shared[i] = &cm.HTMLRenderer{ReferenceMap: refs, SoftBreakBehavior: c.soft, IgnoreRaw: c.ignore, FilterTag: filterFuncs[c.filter]}
	}
	start2 := make(chan struct{})
	for g := 0; g < goroutines; g++ {
		wg.Add(1)
		go func(g int) {
			defer wg.Done()
			defer func() {
				if p := recover(); p != nil {
					errs <- fmt.Errorf("panic on a goroutine: %v", p)
				}
			}()
			<-start2
			for k := 0; k < 3; k++ {
				ci := (g*3 + k) % len(cfgs)
				switch (g + k) % 5 {
				case 3:
					// a writer that fails: this call reports the error, the others
					// that overlap with it are not disturbed
					if err := shared[ci].Render(failingWriter{}, blocks); err == nil && len(wantRender[ci]) > 0 {
						errs <- fmt.Errorf("Render to a failing writer returned nil")
					}
					continue
				case 4:
					// a writer that yields the processor inside Write, so that the
					// call is still in progress while others start and finish
					var sw slowWriter
					shared[ci].Render(&sw, blocks)
					if sw.buf.String() != wantRender[ci] {
						errs <- fmt.Errorf("concurrent Render (slow writer) under configuration %+v differs from the sequential result", cfgs[ci])
					}
					continue
				}
				var buf bytes.Buffer
				shared[ci].Render(&buf, blocks)
				if buf.String() != wantRender[ci] {
					errs <- fmt.Errorf("concurrent Render under configuration %+v differs from the sequential result", cfgs[ci])
				}
			}
			if g%4 == 1 {
				// walks that are cut short (Post or Pre returning false) while other
				// goroutines walk, render and format the same tree
				abortedWalks(blocks, g)
			}
			switch g % 3 {
			case 0:
				var b bytes.Buffer
				format.Format(&b, blocks)
				if b.String() != wantFormat {
					errs <- fmt.Errorf("concurrent Format differs from the sequential result")
				}
				// and into a writer that has no method but Write (and yields inside it)
				var pw plainSlowWriter
				format.Format(&pw, blocks)
				if string(pw.b) != wantFormat {
					errs <- fmt.Errorf("concurrent Format into a plain io.Writer differs from the sequential result")
				}
			case 1:
				if walkSig(blocks) != wantWalk {
					errs <- fmt.Errorf("concurrent Walk differs from the sequential result")
				}
				// walks that share one WalkOptions value (options are configuration;
				// the position of a walk belongs to the walk)
				for _, b := range blocks {
					if bad := sharedWalk(b.AsNode(), sharedOpts); bad != "" {
						errs <- fmt.Errorf("concurrent Walk calls sharing one WalkOptions value: %s", bad)
						break
					}
				}
			case 2:
				var dst []byte
				for _, b := range blocks {
					dst = shared[g%len(cfgs)].AppendBlock(dst, b)
				}
			}
		}(g)
	}
	close(start2)
	wg.Wait()
	if got := dumpAll(blocks, refs); got != wantDump {
		return fmt.Errorf("the shared tree changed while it was rendered/formatted/walked concurrently")
	}
	if got := fmt.Sprintf("%#v", map[string]cm.LinkDefinition(refs)); got != wantRefs {
		return fmt.Errorf("the shared reference map changed while the tree was rendered concurrently")
	}
	select {
	case e := <-errs:
		return e
	default:
	}
	return nil
}

func prop(c harness.Case) harness.Result {
	var inputs [][]byte
	for i := 0; ; i++ {
		b, ok := c.B[fmt.Sprintf("in%02d", i)]
		if !ok {
			break
		}
		inputs = append(inputs, b)
	}
	g := c.I["goroutines"]
	if g < 2 {
		g = 16
	}
	reps := 1
	if harness.Cfg().Replay != "" {
		reps = 20
	}
	res := harness.Result{}
	hasRef, hasRaw := false, false
	for _, in := range inputs {
		if bytes.Contains(in, []byte("]:")) || bytes.Contains(in, []byte("[r]")) {
			hasRef = true
		}
		if bytes.Contains(in, []byte("<")) {
			hasRaw = true
		}
	}
	res.Nontrivial = hasRef && hasRaw && len(inputs) >= 4
	res.Labels = append(res.Labels, fmt.Sprintf("goroutines=%d", g))
	for r := 0; r < reps; r++ {
		before := raceLogSize()
		if err := runBatch(inputs, g); err != nil {
			res.Err = err
			return res
		}
		if after := raceLogSize(); after > before {
			res.Err = fmt.Errorf("DATA RACE reported by the race detector during this batch:\n%s", raceLogTail())
			return res
		}
	}
	return res
}

func genBatch(t *rapid.T) harness.Case {
	var c harness.Case
	n := rapid.IntRange(4, 16).Draw(t, "n")
	for i := 0; i < n; i++ {
		c.SetB(fmt.Sprintf("in%02d", i), gen.Doc().Draw(t, "in"))
	}
	c.SetI("goroutines", []int{8, 16, 32, 64}[rapid.IntRange(0, 3).Draw(t, "g")])
	// two documents of named character references drawn from the whole table:
	// names that no earlier batch of this process has met (a cache of verdicts
	// filled on first use is written during the concurrent phase)
	for k := 0; k < 2; k++ {
		var sb strings.Builder
		for j := 0; j < 40; j++ {
			sb.WriteString("&" + entityNames[rapid.IntRange(0, len(entityNames)-1).Draw(t, "entity")] + " &x" + strconv.Itoa(rapid.IntRange(0, 1<<30).Draw(t, "bogus")) + "; ")
			if j%8 == 7 {
				sb.WriteString("\n\n")
			}
		}
		c.SetB(fmt.Sprintf("in%02d", n+k), []byte(sb.String()))
	}
	return c
}

var entityNames = func() []string {
	var ns []string
	for n := range entities.Names {
		ns = append(ns, n)
	}
	sort.Strings(ns)
	return ns
}()

const rule = "batch of 4-16 G1/G2/G3 inputs x 8-64 goroutines behind a start barrier: (a) each input parsed (in-memory, as adjacent sub-slices of one shared buffer; streaming; streaming through one shared InlineParser value) concurrently, (b) plus three large documents of 40-70 rotated copies of the inputs (hundreds of root blocks each) parsed at the same time, (b) the concatenation (plus raw HTML with upper-case tag names) parsed once, its tree and reference map untouched until the goroutines start (expected results come from a second parse), and rendered by shared HTMLRenderer values under all 24 configurations, formatted and walked concurrently; oracle = race detector log stays empty and every result equals the sequential one; non-trivial = batch has >= 4 inputs including reference syntax and raw HTML"

func TestProperty(t *testing.T) {
	harness.Run(t, harness.Plan{Prop: "C19", Inflight: true, Checks: []harness.Check{
		{Name: "race", Quick: 150, Thorough: 600, Gen: genBatch, Prop: prop, Rule: rule},
	}})
}
