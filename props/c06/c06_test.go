// Package c06 decides property C06: canonical documents render to exactly the
// HTML they denote. Oracle: the abstract-document model of internal/model.
package c06

import (
	"fmt"
	"html"
	"strings"
	"testing"

	"pgregory.net/rapid"
	"verif/internal/cmutil"
	"verif/internal/findings"
	"verif/internal/gen"
	"verif/internal/harness"
	"verif/internal/htmlnorm"
	"verif/internal/model"
	cm "zombiezen.com/go/commonmark"
)

func TestMain(m *testing.M) { harness.Main(m) }

func renderBlocks(in []byte) string {
	blocks, refs := cm.Parse(append([]byte(nil), in...))
	r := &cm.HTMLRenderer{ReferenceMap: refs}
	var out []byte
	for _, b := range blocks {
		out = r.AppendBlock(out, b)
	}
	return string(out)
}

// prop compares the library's rendering of the serialized document with the
// expected HTML, both in the O3 comparison form.
func prop(c harness.Case) harness.Result {
	var res harness.Result
	for _, l := range strings.Split(c.S["labels"], ",") {
		if l != "" {
			res.Labels = append(res.Labels, l)
		}
	}
	res.Nontrivial = c.I["nontrivial"] == 1
	var raws []string
	if r := c.S["raws"]; r != "" {
		raws = strings.Split(r, "\x00")
	}
	want, err := htmlnorm.NormalizeString(c.S["expected"], raws)
	if err != nil {
		harness.Inconclusive("model produced untokenizable expected HTML: %v", err)
		return res
	}
	out := cmutil.LF(renderBlocks(c.In))
	got, err := htmlnorm.NormalizeString(out, raws)
	if err != nil {
		res.Err = fmt.Errorf("library output is not tokenizable (%v)\n source: %q\n output: %q\n expected: %q", err, c.In, out, c.S["expected"])
		return res
	}
	if got != want {
		res.Err = fmt.Errorf("rendering differs from the HTML the document denotes\n source:   %q\n output:   %q\n expected: %q\n--- got\n%s\n--- want\n%s", c.In, out, c.S["expected"], got, want)
	}
	return res
}

func genDoc(sz model.Size) func(t *rapid.T) harness.Case {
	return func(t *rapid.T) harness.Case {
		ch := model.RapidChooser{T: t}
		g := &model.Gen{C: ch, Sz: sz}
		doc := g.Doc()
		ser := &model.Ser{C: ch, St: model.Style{}}
		md := ser.Serialize(doc)
		c := harness.Case{In: []byte(md)}
		c.SetS("expected", model.ExpectedHTML(doc))
		c.SetS("raws", strings.Join(model.RawStrings(doc), "\x00"))
		f := model.Describe(doc)
		var labels []string
		for k := range f.Kinds {
			labels = append(labels, k)
		}
		nt := f.Depth >= 2 || f.MultiLineInlineInContainer > 0 || strings.Contains(md, "\t") || strings.Contains(md, "\r")
		if f.Depth >= 2 {
			labels = append(labels, "depth>=2")
		}
		if f.MultiLineInlineInContainer > 0 {
			labels = append(labels, "multi_line_inline_in_container")
		}
		if strings.Contains(md, "\t") {
			labels = append(labels, "tab_spelled_indentation")
		}
		if f.LooseLists > 0 {
			labels = append(labels, "loose_list")
		}
		if f.RefUses > 0 {
			labels = append(labels, "reference_use")
		}
		if strings.Contains(md, "\r\n") {
			labels = append(labels, "crlf")
		} else if strings.Contains(md, "\r") {
			labels = append(labels, "cr")
		}
		c.SetS("labels", strings.Join(labels, ","))
		if nt {
			c.SetI("nontrivial", 1)
		}
		return c
	}
}

// ---- sub-property (a): backslash-escaping every punctuation character of a
// text yields that text literally

const asciiPunct = "!\"#$%&'()*+,-./:;<=>?@[\\]^_`{|}~"

func escapeAll(s string) string {
	var sb strings.Builder
	for _, r := range s {
		if r < 0x80 && strings.ContainsRune(asciiPunct, r) {
			sb.WriteByte('\\')
		}
		sb.WriteRune(r)
	}
	return sb.String()
}

// ---- literal fallback: syntax that cannot form a construct is text. The
// documents have no reference definition, so no bracketed label resolves, and
// no bracket is followed by ':' or by a complete inline link tail, so there
// is no inline link or definition either; unmatched code fences, angle brackets that are no tag or
// autolink, ampersands that start no reference and lone delimiter runs
// between spaces stay literal too. Every token's reading is fixed by the
// spec whatever its neighbours are (tokens are separated by spaces).
var literalTokens = []string{
	"[a]", "[a][]", "[a][b]", "![a]", "![a][]", "![a][b]", "[]", "[][]", "[a] [b]", "[[a]]", "[a][b][c]", "]", "[", "][", "[a", "b]", "![", "!", "[a]![b]",
	"<", ">", "< a>", "<33>", "<a b='c>", "</a b>", "<!-->", "<!--->", "<!-- a--b -->", "<a@>", "<a:b>", "<http://a b>", "<?", "<![CDATA[x",
	"&", "&amp", "&#;", "&#x;", "&#12345678;", "&#x1234567;", "&nosuch;", "&;", "&#a;",
	"*", "**", "_", "***", "a_b", "a_b_c", "`", "``", "``` x", "\\a", "\\", "a\\",
	"word", "foo", "é", "7", "x.y", "a/b",
	// inline link tails that are no link whatever follows, a closing parenthesis
	// included: a destination whose parentheses are not balanced pairs
	"[a](b(c", "![a](b(c", "[a](b((c)", ")", ")",
}

func genLiteral(t *rapid.T) harness.Case {
	nl := rapid.IntRange(1, 4).Draw(t, "lines")
	var lines []string
	for i := 0; i < nl; i++ {
		var toks []string
		toks = append(toks, []string{"w", "foo", "x1"}[rapid.IntRange(0, 2).Draw(t, "first")]) // a line starts with a word: no block start
		for j, n := 0, rapid.IntRange(1, 6).Draw(t, "ntok"); j < n; j++ {
			toks = append(toks, literalTokens[rapid.IntRange(0, len(literalTokens)-1).Draw(t, "tok")])
		}
		toks = append(toks, "z") // and ends with one: no trailing backslash or spaces
		lines = append(lines, strings.Join(toks, " "))
	}
	// backtick strings must stay unmatched across the whole paragraph: keep at most one token with backticks
	seenTick := false
	for i, l := range lines {
		fs := strings.Split(l, " ")
		for j, f := range fs {
			if strings.Contains(f, "`") {
				if seenTick {
					fs[j] = "q"
				}
				seenTick = true
			}
		}
		lines[i] = strings.Join(fs, " ")
	}
	var md, exp string
	x := html.EscapeString(strings.ReplaceAll(strings.Join(lines, "\n"), "\\\\", "\\"))
	x = strings.ReplaceAll(x, "&#39;", "'")
	// (contexts 4 and 5: the literal paragraph - with its single unmatched
	// backtick string, if it has one - is followed, inside the same list or
	// quote, by a paragraph with code spans of one, two and three backticks: a
	// backtick string that found no partner in one block says nothing about the
	// next block)
	const spans, spansHTML = "k `x` ``y`` ```z``` k", "k <code>x</code> <code>y</code> <code>z</code> k"
	switch rapid.IntRange(0, 5).Draw(t, "ctx") {
	case 4:
		md, exp = "- "+strings.Join(lines, "\n  ")+"\n- "+spans, "<ul><li>"+x+"</li><li>"+spansHTML+"</li></ul>"
	case 5:
		md, exp = "> "+strings.Join(lines, "\n> ")+"\n>\n> "+spans, "<blockquote><p>"+x+"</p><p>"+spansHTML+"</p></blockquote>"
	case 0:
		md, exp = strings.Join(lines, "\n"), "<p>"+x+"</p>"
	case 1:
		md, exp = "> "+strings.Join(lines, "\n> "), "<blockquote><p>"+x+"</p></blockquote>"
	case 2:
		md, exp = "- "+strings.Join(lines, "\n  "), "<ul><li>"+x+"</li></ul>"
	default:
		md, exp = "# "+lines[0], "<h1>"+html.EscapeString(strings.ReplaceAll(lines[0], "\\\\", "\\"))+"</h1>"
		exp = strings.ReplaceAll(exp, "&#39;", "'")
	}
	c := harness.Case{In: []byte(md)}
	c.SetS("expected", exp)
	c.SetI("nontrivial", 1)
	return c
}

func genEscape(t *rapid.T) harness.Case {
	atoms := []string{"a", "b", "Z", "7", "12", " ", " ", "é", "猫", "ß"}
	for i := 0; i < len(asciiPunct); i++ {
		atoms = append(atoms, asciiPunct[i:i+1])
	}
	n := rapid.IntRange(1, 16).Draw(t, "n")
	var sb strings.Builder
	for i := 0; i < n; i++ {
		sb.WriteString(atoms[rapid.IntRange(0, len(atoms)-1).Draw(t, "atom")])
	}
	txt := strings.Trim(sb.String(), " ")
	for strings.Contains(txt, "  ") {
		txt = strings.ReplaceAll(txt, "  ", " ")
	}
	if txt == "" {
		txt = "a"
	}
	e := escapeAll(txt)
	x := html.EscapeString(txt)
	var md, exp string
	switch rapid.IntRange(0, 5).Draw(t, "ctx") {
	case 0:
		md, exp = e, "<p>"+x+"</p>"
	case 1:
		md, exp = "## "+e+" ##", "<h2>"+x+"</h2>"
	case 2:
		md, exp = "["+e+"](/u \""+e+"\")", "<p><a href=\"/u\" title=\""+x+"\">"+x+"</a></p>"
	case 3:
		md, exp = "> - "+e+"\n>   "+e, "<blockquote><ul><li>"+x+"\n"+x+"</li></ul></blockquote>"
	case 4:
		md, exp = "*"+"a"+e+"a"+"*", "<p><em>a"+x+"a</em></p>"
	default:
		md, exp = e+"\n===", "<h1>"+x+"</h1>"
	}
	c := harness.Case{In: []byte(md)}
	c.SetS("expected", exp)
	if strings.ContainsAny(txt, asciiPunct) {
		c.SetI("nontrivial", 1)
	}
	return c
}

// ---- sub-property (b): code block contents come out verbatim

func genCode(t *rapid.T) harness.Case {
	atoms := []string{"a", "foo", " ", "  ", "    ", "-", "- ", "1. ", "> ", "#", "`", "``", "```", "~~~", "~~~~", "<b>", "&amp;", "&", "*", "_", "[x](y)", "\\", "\\`", "=", "---", "===", "é", "\"", "'", "<", ">", "\t", "<!--", "]]>"}
	nl := rapid.IntRange(1, 5).Draw(t, "nlines")
	var lines []string
	for i := 0; i < nl; i++ {
		k := rapid.IntRange(0, 5).Draw(t, "natoms")
		var sb strings.Builder
		for j := 0; j < k; j++ {
			sb.WriteString(atoms[rapid.IntRange(0, len(atoms)-1).Draw(t, "atom")])
		}
		l := sb.String()
		if strings.Trim(l, " \t") == "" && strings.Contains(l, "\t") {
			// a whitespace-only line with a tab mixes with the container indentation
			l = ""
		}
		lines = append(lines, l)
	}
	fenced := rapid.Bool().Draw(t, "fenced")
	var src []string
	if fenced {
		ch := []string{"`", "~"}[rapid.IntRange(0, 1).Draw(t, "ch")]
		n := 3
		for _, l := range lines {
			run := 0
			for i := 0; i < len(l); i++ {
				if l[i] == ch[0] {
					run++
					if run >= n {
						n = run + 1
					}
				} else {
					run = 0
				}
			}
		}
		src = append(src, strings.Repeat(ch, n))
		src = append(src, lines...)
		src = append(src, strings.Repeat(ch, n))
	} else {
		// indented: no leading tab (it would mix with the indentation), first and
		// last lines non-blank, whitespace-only interior lines spelled empty
		for i := range lines {
			lines[i] = strings.TrimLeft(lines[i], "\t")
			if strings.TrimSpace(lines[i]) == "" {
				lines[i] = ""
			}
		}
		for len(lines) > 0 && lines[0] == "" {
			lines = lines[1:]
		}
		for len(lines) > 0 && lines[len(lines)-1] == "" {
			lines = lines[:len(lines)-1]
		}
		if len(lines) == 0 {
			lines = []string{"x"}
		}
		lines[0] = strings.TrimLeft(lines[0], " ")
		if lines[0] == "" {
			lines[0] = "x"
		}
		for _, l := range lines {
			if l == "" {
				src = append(src, "")
			} else {
				src = append(src, "    "+l)
			}
		}
	}
	exp := "<pre><code>" + html.EscapeString(strings.Join(lines, "\n")) + "\n</code></pre>"
	// nesting position
	wrap := func(pre, cont string) {
		for i, l := range src {
			switch {
			case i == 0:
				src[i] = pre + l
			case l == "" && strings.TrimSpace(cont) == "":
				src[i] = ""
			case strings.TrimSpace(l) == "" && strings.TrimSpace(cont) == "":
				// a line of spaces in a list item: the item's indentation, then the content
				src[i] = cont + l
			default:
				src[i] = cont + l
			}
		}
	}
	switch rapid.IntRange(0, 4).Draw(t, "pos") {
	case 1:
		wrap("> ", "> ")
		exp = "<blockquote>" + exp + "</blockquote>"
	case 2:
		if fenced {
			wrap("- ", "  ")
			exp = "<ul><li>" + exp + "</li></ul>"
		}
	case 3:
		if fenced {
			wrap("10. ", "    ")
			wrap("> ", "> ")
			exp = "<blockquote><ol start=\"10\"><li>" + exp + "</li></ol></blockquote>"
		}
	case 4:
		// after a paragraph, inside a list item
		src = append([]string{"p", ""}, src...)
		wrap("+   ", "    ")
		exp = "<ul><li><p>p</p>" + exp + "</li></ul>"
	}
	nlc := []string{"\n", "\r\n", "\r"}[rapid.IntRange(0, 2).Draw(t, "le")]
	md := strings.Join(src, nlc)
	if rapid.Bool().Draw(t, "finalnl") {
		md += nlc
	}
	c := harness.Case{In: []byte(md)}
	c.SetS("expected", exp)
	c.SetI("nontrivial", 1)
	return c
}

const rule = "abstract documents (G4: paragraphs, ATX/setext headings, thematic breaks, fenced/indented code, HTML blocks, reference definitions, quotes, tight/loose bullet and ordered lists; text with escapes and character references, breaks, emphasis, code spans, inline/reference links, images, autolinks, raw tags) x serializer choices (markers, fence characters and lengths, indentation 0-3, 1-4 spaces after list markers, tab-spelled structural indentation, lazy continuation, LF/CRLF/CR, final newline, escaping style, destination/title delimiters, line endings inside links); oracle = expected HTML computed from the abstract tree, compared in the O3 form; non-trivial = container depth >= 2, a multi-line inline construct inside a container, tab-spelled indentation or a non-LF line ending"

var rendererVocabulary = map[string]bool{"p": true, "h1": true, "h2": true, "h3": true, "h4": true, "h5": true, "h6": true, "pre": true, "code": true, "blockquote": true,
	"ul": true, "ol": true, "li": true, "em": true, "strong": true, "a": true, "img": true, "br": true, "hr": true}

// specExamples: the 652 examples of the spec, compared in the O3 form (which,
// unlike the repository's own normalizer, keeps white space inside text).
// Examples whose expected HTML is not in the renderer's own vocabulary (raw
// HTML) cannot be tokenized strictly and are counted as skipped.
func specExamples(t *testing.T, plan harness.Plan) {
	if harness.Cfg().Shard != 0 {
		return
	}
	const name = "spec_examples"
	for _, ex := range gen.Spec {
		exp := strings.ReplaceAll(ex.HTML, " />", ">")
		toks, err := htmlnorm.Tokenize(exp, nil)
		foreign := false
		for _, tk := range toks {
			if (tk.Kind == htmlnorm.Start || tk.Kind == htmlnorm.End) && !rendererVocabulary[tk.Name] {
				foreign = true
			}
		}
		if err != nil || foreign {
			harness.Label(name, "skipped_expected_html_has_raw_html", 1)
			continue
		}
		want := htmlnorm.Normalize(toks)
		blocks, refs := cm.Parse([]byte(ex.Markdown))
		var sb strings.Builder
		cm.RenderHTML(&sb, blocks, refs)
		got, gerr := htmlnorm.NormalizeString(sb.String(), nil)
		c := harness.Case{In: []byte(ex.Markdown)}
		c.SetS("expected", exp)
		c.SetI("nontrivial", 1)
		harness.CountRaw(name, uint64(ex.Example), true, func() string { return fmt.Sprintf("example %d (%s): %q", ex.Example, ex.Section, ex.Markdown) })
		if gerr != nil || got != want {
			err := fmt.Errorf("spec example %d (%s): rendering differs\n source:   %q\n output:   %q\n expected: %q", ex.Example, ex.Section, ex.Markdown, sb.String(), ex.HTML)
			if harness.Fail(t, plan, name, c, err) {
				return
			}
		}
	}
	harness.SetExhaustive(name, "all 652 examples of the CommonMark 0.30 specification whose expected HTML uses only the renderer's vocabulary")
}

func TestProperty(t *testing.T) {
	plan := plan()
	plan.After = func(t *testing.T) {
		specExamples(t, plan)
		if !t.Failed() {
			boundaries(t, plan)
		}
	}
	harness.Run(t, plan)
}

func plan() harness.Plan {
	return harness.Plan{Prop: "C06", Suppress: findings.Suppressor("C06"), Checks: []harness.Check{
		{Name: "model", Quick: 40000, Thorough: 500000, Gen: genDoc(model.Small), Prop: prop, Rule: rule},
		{Name: "escape_all", Quick: 40000, Thorough: 400000, Gen: genEscape, Prop: prop,
			Rule: "a random text over letters, digits, non-ASCII and all 32 ASCII punctuation characters with every punctuation character backslash-escaped, as a paragraph, ATX heading, setext heading, link text and title, emphasis content and a list item inside a quote; expected = exactly that text; non-trivial = the text has punctuation"},
		{Name: "literal_fallback", Quick: 30000, Thorough: 300000, Gen: genLiteral, Prop: prop,
			Rule: "paragraphs, quoted and listed paragraphs and headings made of space-separated tokens that cannot form a construct (bracketed labels of every reference form in a document without definitions, unbalanced brackets, angle brackets that are no tag or autolink, ampersands that start no reference, lone delimiter runs, unmatched backtick strings); expected = the text itself, escaped"},
		{Name: "code_verbatim", Quick: 40000, Thorough: 400000, Gen: genCode, Prop: prop,
			Rule: "arbitrary lines (markdown syntax, leading spaces, fence-like runs, tabs) as the content of fenced and indented code blocks at the top level, in a quote, in list items, in a list in a quote and after a paragraph in an item, under LF/CRLF/CR; expected = the lines byte for byte"},
		{Name: "model_large", Quick: 5000, Thorough: 80000, Gen: genDoc(model.Large), Prop: prop, Rule: "larger size bounds (depth 5, 7 blocks per container, 8 inlines per run): " + rule},
		{Name: "boundaries", Prop: prop, Rule: "enumerated boundary documents on either side of every numeric limit and name table of the spec (see the check's bound)"},
		{Name: "spec_examples", Prop: prop, Rule: "every example of the 0.30 spec whose expected HTML has no raw HTML, compared in the O3 form (white space inside text is significant)"},
	}}
}
