package c06

import (
	"fmt"
	"hash/fnv"
	"html"
	"strings"
	"testing"

	"verif/internal/entities"
	"verif/internal/harness"
)

// boundaries enumerates the numeric limits and name tables of the spec that a
// random search only reaches by luck: each case is a small document with the
// HTML the spec's rule assigns to it on either side of the limit.
func boundaries(t *testing.T, plan harness.Plan) {
	if harness.Cfg().Shard != 0 {
		return
	}
	const name = "boundaries"
	n := 0
	try := func(md, exp string, raws ...string) bool {
		n++
		c := harness.Case{In: []byte(md)}
		c.SetS("expected", exp)
		c.SetS("raws", strings.Join(raws, "\x00"))
		c.SetI("nontrivial", 1)
		h := fnv.New64a()
		h.Write([]byte(md))
		harness.CountRaw(name, h.Sum64(), true, func() string { return fmt.Sprintf("%q -> %q", md, exp) })
		res := prop(c)
		if res.Err != nil {
			return harness.Fail(t, plan, name, c, res.Err)
		}
		return false
	}
	// (i) HTML block start condition 6: the 62 tag names, any case, as open,
	// closing and self-closing tag, can interrupt a paragraph; other names cannot
	type6 := strings.Fields("address article aside base basefont blockquote body caption center col colgroup dd details dialog dir div dl dt fieldset figcaption figure footer form frame frameset h1 h2 h3 h4 h5 h6 head header hr html iframe legend li link main menu menuitem nav noframes ol optgroup option p param section source summary table tbody td tfoot th thead title tr track ul")
	for _, nm := range type6 {
		for _, v := range []string{nm, strings.ToUpper(nm), strings.ToUpper(nm[:1]) + nm[1:]} {
			for _, form := range []string{"<%s>", "</%s>", "<%s/>", "<%s x=y>", "<%s"} {
				tag := fmt.Sprintf(form, v)
				if try("q\n"+tag+"\n*x*\n", "<p>q</p>"+tag+"\n*x*\n", tag) {
					return
				}
			}
			// a longer name is not in the list: inline HTML, the paragraph goes on
			tag := "<" + v + "q>"
			if try("q\n"+tag+"\n*x*\n", "<p>q\n"+tag+"\n<em>x</em></p>", tag) {
				return
			}
		}
	}
	for _, nm := range []string{"span", "a", "b", "em", "img", "x-y", "dfn", "ins", "del", "button", "video", "audio", "canvas", "svg", "math", "textarea2"} {
		tag := "<" + nm + ">"
		if try("q\n"+tag+"\n*x*\n", "<p>q\n"+tag+"\n<em>x</em></p>", tag) {
			return
		}
	}
	// (ii) condition 1: pre, script, style, textarea start a block that ends at the closing tag
	for _, nm := range []string{"pre", "script", "style", "textarea", "PRE", "Script", "STYLE", "TextArea"} {
		if try("<"+nm+">\n*a*\n\n*b*\n</"+nm+">\n*c*\n", "<"+nm+">\n*a*\n\n*b*\n</"+nm+">\n<p><em>c</em></p>", "<"+nm+">", "</"+nm+">") {
			return
		}
		if try("q\n<"+nm+" x>\n*a*\n", "<p>q</p><"+nm+" x>\n*a*\n", "<"+nm+" x>") {
			return
		}
	}
	// (iii) autolink schemes: 2-32 characters, a letter first
	for l := 1; l <= 34; l++ {
		for _, first := range []string{"a", "Z", "1", "+"} {
			scheme := first + strings.Repeat("b", l-1)
			if l > 2 {
				scheme = first + strings.Repeat("b", l-3) + "+." [0:1] + "9"
			}
			uri := scheme + ":x/y"
			valid := l >= 2 && l <= 32 && (first == "a" || first == "Z")
			exp := "<p>&lt;" + uri + "&gt;</p>"
			if valid {
				exp = `<p><a href="` + uri + `">` + uri + `</a></p>`
			}
			if try("<"+uri+">", exp) {
				return
			}
		}
	}
	for _, bad := range []string{"ab:x y", "ab:x<", "ab:x\ty"} {
		if try("<"+bad+">", "<p>"+html.EscapeString("<"+bad+">")+"</p>") {
			return
		}
	}
	// (iv) numeric character references: 1-7 decimal digits, 1-6 hexadecimal digits
	for d := 0; d <= 9; d++ {
		ref := "&#" + strings.Repeat("4", d) + "8;"[1-min1(d):]
		_ = ref
	}
	for d := 0; d <= 9; d++ {
		digits := ""
		if d > 0 {
			digits = strings.Repeat("0", d-1) + "65"[0:1]
			digits = strings.Repeat("0", d-1) + "9"
		}
		ref := "&#" + digits + ";"
		exp := "<p>" + html.EscapeString(ref) + "</p>"
		if d >= 1 && d <= 7 {
			exp = "<p>\t</p>"
			if d == 1 {
				exp = "<p>\t</p>"
			}
		}
		if d >= 1 && d <= 7 {
			// &#9; (with leading zeros) is a tab
			if try("a"+ref+"b", "<p>a\tb</p>") {
				return
			}
		} else if try("a"+ref+"b", "<p>a"+html.EscapeString(ref)+"b</p>") {
			return
		}
		_ = exp
	}
	for d := 0; d <= 8; d++ {
		for _, x := range []string{"x", "X"} {
			digits := ""
			if d > 0 {
				digits = strings.Repeat("0", d-1) + "9"
			}
			ref := "&#" + x + digits + ";"
			if d >= 1 && d <= 6 {
				if try("a"+ref+"b", "<p>a\tb</p>") {
					return
				}
			} else if try("a"+ref+"b", "<p>a"+html.EscapeString(ref)+"b</p>") {
				return
			}
		}
	}
	// (v) link labels: at most 999 characters inside the brackets
	for _, l := range []int{1, 500, 998, 999, 1000, 1001} {
		lab := strings.Repeat("a", l)
		exp := "<p>[" + lab + "]</p>"
		if l <= 999 {
			exp = `<p><a href="/u">` + lab + `</a></p>`
		}
		if l > 999 {
			exp = "<p>[" + lab + "]: /u</p>" + exp
		}
		if try("["+lab+"]: /u\n\n["+lab+"]", exp) {
			return
		}
	}
	// the same limit for labels written on several lines inside containers: the
	// container prefixes of the continuation lines are not part of the label
	for _, l := range []int{996, 997, 998, 999, 1000, 1001} {
		for _, k := range []int{2, 3, 5} {
			for _, cont := range []struct{ first, next, open, close string }{
				{"", "", "", ""},
				{"> ", "> ", "<blockquote>", "</blockquote>"},
				{">", ">", "<blockquote>", "</blockquote>"},
				{"- ", "  ", "<ul><li>", "</li></ul>"},
				{"10. ", "    ", `<ol start="10"><li>`, "</li></ol>"},
				{"> - ", ">   ", "<blockquote><ul><li>", "</li></ul></blockquote>"},
			} {
				lab := []byte(strings.Repeat("a", l))
				for i := 1; i < k; i++ {
					lab[i*l/k] = '\n'
				}
				top := string(lab)                                                 // the label as written at top level
				in := strings.ReplaceAll(top, "\n", "\n"+cont.next)               // ... and inside the container
				md := cont.first + "[" + in + "]: /u\n\n[" + top + "]"
				var exp string
				if l <= 999 {
					exp = cont.open + cont.close + `<p><a href="/u">` + top + `</a></p>`
				} else {
					para := "<p>[" + top + "]: /u</p>"
					if strings.Contains(cont.open, "<li>") {
						para = "[" + top + "]: /u" // a tight item
					}
					exp = cont.open + para + cont.close + "<p>[" + top + "]</p>"
				}
				if try(md, exp) {
					return
				}
				if cont.first == "> " {
					// the use inside the quote as well, as a full reference
					md = "> [" + in + "]: /u\n>\n> [x][" + in + "]"
					if l <= 999 {
						exp = `<blockquote><p><a href="/u">x</a></p></blockquote>`
					} else {
						exp = "<blockquote><p>[" + top + "]: /u</p><p>[x][" + top + "]</p></blockquote>"
					}
					if try(md, exp) {
						return
					}
				}
			}
		}
	}
	// (vi) ordered list start numbers: 1-9 digits
	for d := 1; d <= 11; d++ {
		num := "1" + strings.Repeat("0", d-1)
		exp := "<p>" + num + ". x</p>"
		if d <= 9 {
			exp = `<ol start="` + num + `"><li>x</li></ol>`
			if d == 1 {
				exp = "<ol><li>x</li></ol>"
			}
		}
		if try(num+". x", exp) {
			return
		}
	}
	// ... the limit is on the number of digits, not on the value: leading zeros count
	for d := 2; d <= 11; d++ {
		for _, last := range []string{"1", "8", "9"} {
			num := strings.Repeat("0", d-1) + last
			exp := "<p>" + num + ". x</p>"
			if d <= 9 {
				exp = `<ol start="` + last + `"><li>x</li></ol>`
				if last == "1" {
					exp = "<ol><li>x</li></ol>"
				}
			}
			if try(num+". x", exp) {
				return
			}
		}
	}
	// spaces after a list marker: 1-4 belong to the marker, 5+ start an indented code block
	for sp := 1; sp <= 7; sp++ {
		exp := "<ul><li>x</li></ul>"
		if sp >= 5 {
			exp = "<ul><li><pre><code>" + strings.Repeat(" ", sp-5) + "x\n</code></pre></li></ul>"
		}
		if try("-"+strings.Repeat(" ", sp)+"x", exp) {
			return
		}
	}
	// (vii) indentation 0-3 keeps the block, 4 makes an indented code block
	blocks := []struct{ md, html string }{
		{"# h", "<h1>h</h1>"}, {"---", "<hr>"}, {"> q", "<blockquote><p>q</p></blockquote>"}, {"- i", "<ul><li>i</li></ul>"},
		{"```\nc\n```", "<pre><code>c\n</code></pre>"}, {"<div>", "<div>"}, {"[r]: /u", ""}, {"1. i", "<ol><li>i</li></ol>"},
	}
	for _, b := range blocks {
		for ind := 0; ind <= 4; ind++ {
			pre := strings.Repeat(" ", ind)
			md := pre + strings.ReplaceAll(b.md, "\n", "\n"+pre)
			exp := b.html
			if b.md == "<div>" {
				exp = pre + b.html // the lines of an HTML block are kept as they are
			}
			if ind == 4 {
				exp = "<pre><code>" + html.EscapeString(b.md) + "\n</code></pre>"
			}
			if try(md, exp, "<div>") {
				return
			}
		}
	}
	// (viii) code fences: at least three characters; the closing fence at least as long
	for open := 1; open <= 6; open++ {
		for cl := 1; cl <= 7; cl++ {
			for _, ch := range []string{"`", "~"} {
				o, c := strings.Repeat(ch, open), strings.Repeat(ch, cl)
				md := o + "\nx\n" + c + "\ny"
				var exp string
				switch {
				case open < 3 && ch == "`":
					continue // backtick strings below three are code span delimiters: C11/C13 territory
				case open < 3:
					continue
				case cl >= open:
					exp = "<pre><code>x\n</code></pre><p>y</p>"
				default:
					exp = "<pre><code>x\n" + c + "\ny\n</code></pre>"
				}
				if try(md, exp) {
					return
				}
			}
		}
	}
	// (ix) ATX levels 1-6, 7 is a paragraph; setext underlines with 0-3 spaces
	for l := 1; l <= 8; l++ {
		hs := strings.Repeat("#", l)
		exp := "<p>" + hs + " h</p>"
		if l <= 6 {
			exp = fmt.Sprintf("<h%d>h</h%d>", l, l)
		}
		if try(hs+" h", exp) {
			return
		}
	}
	for ind := 0; ind <= 4; ind++ {
		pre := strings.Repeat(" ", ind)
		exp := "<h1>t</h1>"
		if ind == 4 {
			exp = "<p>t\n===</p>"
		}
		if try("t\n"+pre+"===", exp) {
			return
		}
		exp = "<h2>t</h2>"
		if ind == 4 {
			exp = "<p>t\n---</p>"
		}
		if try("t\n"+pre+"---", exp) {
			return
		}
	}
	// (x) hard line break: two or more spaces
	for sp := 0; sp <= 4; sp++ {
		exp := "<p>a\nb</p>"
		if sp >= 2 {
			exp = "<p>a<br>\nb</p>"
		}
		if try("a"+strings.Repeat(" ", sp)+"\nb", exp) {
			return
		}
	}
	// (xi) every named character reference of the WHATWG table is recognised
	// (decoding is the standard library's; two names it does not know are skipped)
	for nm := range entities.Names {
		ref := "&" + nm
		dec := html.UnescapeString(ref)
		if dec == ref {
			harness.Label(name, "skipped_entity_unknown_to_go_html", 1)
			continue
		}
		if try("a"+ref+"b", "<p>a"+html.EscapeString(dec)+"b</p>") {
			return
		}
		// without the semicolon it is text
		bare := strings.TrimSuffix(ref, ";")
		if try("a"+bare+" b", "<p>a"+html.EscapeString(bare)+" b</p>") {
			return
		}
	}
	harness.SetExhaustive(name, fmt.Sprintf("%d boundary documents: HTML block tag-name tables (62 names x case x 5 tag forms), autolink scheme lengths 1-34, numeric reference digit counts, label lengths around 999 (on one line, and on 2-5 lines inside quotes and list items), list start digits 1-11 (also with leading zeros), spaces after a marker 1-7, indentation 0-4 per block kind, fence lengths, ATX levels 1-8, setext indentation, hard-break spaces, all named character references", n))
}

func min1(d int) int {
	if d < 1 {
		return d
	}
	return 1
}
