// Package c02 decides property C02 (see DESIGN.md section 6) with the shared
// tree oracle of internal/tree over generated inputs.
package c02

import (
	"testing"

	"verif/internal/findings"
	"verif/internal/gen"
	"verif/internal/harness"
	"verif/internal/treeprop"
)

func TestMain(m *testing.M) { harness.Main(m) }

func TestProperty(t *testing.T) {
	harness.Run(t, treeprop.Plan("C02", findings.Suppressor("C02")))
}

// FuzzProperty is the native coverage-guided fuzz entry (thorough tier).
func FuzzProperty(f *testing.F) {
	harness.FuzzTarget(f, treeprop.Plan("C02", findings.Suppressor("C02")), "memory", gen.SeedCorpus())
}
