// Package c01 decides property C01: root blocks tile the input losslessly,
// with exact offsets and line numbers, through both entry points.
package c01

import (
	"bytes"
	"fmt"
	"io"
	"testing"

	"pgregory.net/rapid"
	"verif/internal/gen"
	"verif/internal/harness"
	"verif/internal/tree"
	cm "zombiezen.com/go/commonmark"
)

func TestMain(m *testing.M) { harness.Main(m) }

func nontrivial(in []byte, nblocks int) bool {
	if nblocks >= 2 {
		return true
	}
	return bytes.IndexByte(in, 0) >= 0 || bytes.IndexByte(in, '\r') >= 0 || bytes.Contains(in, []byte("\n\n"))
}

func labels(in []byte, nblocks int) []string {
	l := gen.Classify(in)
	switch {
	case nblocks == 0:
		l = append(l, "blocks=0")
	case nblocks == 1:
		l = append(l, "blocks=1")
	case nblocks < 5:
		l = append(l, "blocks=2-4")
	default:
		l = append(l, "blocks>=5")
	}
	return l
}

func first(vs []tree.Viol) error {
	if len(vs) == 0 {
		return nil
	}
	return fmt.Errorf("%s (and %d more)", vs[0].Msg, len(vs)-1)
}

// propMemory: the in-memory entry point.
func propMemory(c harness.Case) harness.Result {
	in := c.In
	orig := append([]byte(nil), in...)
	blocks, _ := cm.Parse(in)
	res := harness.Result{Nontrivial: nontrivial(orig, len(blocks)), Labels: labels(orig, len(blocks))}
	if !bytes.Equal(orig, in) {
		res.Err = fmt.Errorf("Parse modified the caller's buffer: %q -> %q", orig, in)
		return res
	}
	res.Err = first(tree.CheckC01(in, blocks, true))
	return res
}

// propStream: the streaming entry point under a read schedule.
func propStream(c harness.Case) harness.Result {
	in := c.In
	orig := append([]byte(nil), in...)
	r := gen.NewSchedReader(in, c.L["sched"], c.I["eofdata"] == 1, -1)
	p := cm.NewBlockParser(r)
	var blocks []*cm.RootBlock
	for {
		b, err := p.NextBlock()
		if err == io.EOF {
			break
		}
		if err != nil {
			return harness.Result{Err: fmt.Errorf("NextBlock: unexpected error %v", err)}
		}
		blocks = append(blocks, b)
		if len(blocks) > len(in)+1 {
			return harness.Result{Err: fmt.Errorf("more blocks than input bytes")}
		}
	}
	res := harness.Result{Nontrivial: nontrivial(orig, len(blocks)), Labels: labels(orig, len(blocks))}
	if len(c.L["sched"]) > 1 {
		res.Labels = append(res.Labels, "multi_read")
	}
	if !bytes.Equal(orig, in) {
		res.Err = fmt.Errorf("streaming parse modified the reader's data: %q -> %q", orig, in)
		return res
	}
	res.Err = first(tree.CheckC01(in, blocks, false))
	if res.Err != nil {
		return res
	}
	// The blocks stay what they are when the program goes on to parse
	// something else: a second parser reads another document to its end, then
	// the first document's blocks are examined again.
	other := append(bytes.Repeat([]byte("> SECOND DOCUMENT\n\nsecond *paragraph*\n\n"), 1+len(in)/40), orig...)
	q := cm.NewBlockParser(bytes.NewReader(other))
	for {
		if _, err := q.NextBlock(); err != nil {
			break
		}
	}
	if err := first(tree.CheckC01(in, blocks, false)); err != nil {
		res.Err = fmt.Errorf("after another BlockParser has read a second document: %v", err)
	}
	return res
}

// withBlankPrefix puts one to four blank lines (spaces and tabs, ended by LF,
// CR or CRLF in any mixture) in front of one document in five.
func withBlankPrefix(t *rapid.T, in []byte) []byte {
	if rapid.IntRange(0, 4).Draw(t, "prefix?") != 0 {
		return in
	}
	var pre []byte
	for n := rapid.IntRange(1, 4).Draw(t, "prefixlines"); n > 0; n-- {
		pre = append(pre, []string{"", "", " ", "  ", "\t", "    "}[rapid.IntRange(0, 5).Draw(t, "prefixws")]...)
		pre = append(pre, []string{"\n", "\r", "\r\n"}[rapid.IntRange(0, 2).Draw(t, "prefixeol")]...)
	}
	return append(pre, in...)
}

func genMemory(t *rapid.T) harness.Case {
	return harness.Case{In: withBlankPrefix(t, gen.Doc().Draw(t, "in"))}
}

func genStream(t *rapid.T) harness.Case {
	c := harness.Case{In: withBlankPrefix(t, gen.Doc().Draw(t, "in"))}
	c.SetL("sched", gen.Schedule(t, c.In))
	if rapid.Bool().Draw(t, "eofdata") {
		c.SetI("eofdata", 1)
	}
	return c
}

func genLong(t *rapid.T) harness.Case {
	c := harness.Case{In: gen.Long(6000, 40000).Draw(t, "in")}
	c.SetL("sched", gen.Schedule(t, c.In))
	return c
}

// genLongDoc: documents of many root blocks (half of them with NULs at drawn
// places) read as much at a time as the parser asks for, in fixed chunks around
// the 8 KiB read size, or under a G5 schedule.
func genLongDoc(t *rapid.T) harness.Case {
	c := harness.Case{In: gen.LongDoc(17000, 90000).Draw(t, "in")}
	switch rapid.IntRange(0, 4).Draw(t, "lsched") {
	case 0, 1: // as much as the parser asks for
	case 2, 3:
		sz := []int{8192, 8191, 4096, 8000, 1000, 12000, 100}[rapid.IntRange(0, 6).Draw(t, "chunk")]
		var s []int
		for n := 0; n < len(c.In); n += sz {
			s = append(s, sz)
		}
		c.SetL("sched", s)
	default:
		c.SetL("sched", gen.Schedule(t, c.In))
	}
	if rapid.Bool().Draw(t, "eofdata") {
		c.SetI("eofdata", 1)
	}
	return c
}

const rule = "inputs from G1 byte soup (50%), G2 line-structured (30%), G3 mutated spec examples (20%); non-trivial = at least 2 root blocks, or the input has a NUL, a CR or an interior blank line; distinct by FNV-64 of input and schedule"

func plan() harness.Plan {
		return harness.Plan{Prop: "C01", Checks: []harness.Check{
		{Name: "memory", Quick: 60000, Thorough: 600000, Gen: genMemory, Prop: propMemory, Rule: rule},
		{Name: "stream", Quick: 40000, Thorough: 400000, Gen: genStream, Prop: propStream, Rule: rule + "; read schedule from G5"},
		{Name: "stream_long", Quick: 300, Thorough: 3000, Gen: genLong, Prop: propStream, Rule: "G1 long mode 6-40 KB (crosses the 8 KiB read window) x G5 schedule; non-trivial as above"},
		{Name: "stream_documents", Quick: 80, Thorough: 1200, Gen: genLongDoc, Prop: propStream, Rule: "documents of 17-90 KB made of hundreds of root blocks (gen.LongDoc; half of them with single NULs, NUL runs and runs of thousands of NULs at drawn offsets), read as much at a time as the parser asks for, in fixed chunks around 8 KiB, or under a G5 schedule"},
		{Name: "memory_long", Quick: 300, Thorough: 3000, Gen: func(t *rapid.T) harness.Case { return harness.Case{In: gen.Long(6000, 40000).Draw(t, "in")} }, Prop: propMemory, Rule: "G1 long mode, in-memory"},
	}}
}

func TestProperty(t *testing.T) {
	p := plan()
	p.Checks = append(p.Checks, harness.Check{Name: "edge_documents", Prop: propMemory, Rule: "enumerated: every special line as the last line of every context (gen.EdgeDocs), with and without final line ending, LF / CRLF / CR; through Parse and through the streaming parser with one-byte reads"})
	p.After = func(t *testing.T) {
		docs := gen.EdgeDocs()
		harness.EnumerateInputs(t, p, "edge_documents", docs, nil, propMemory)
		if !t.Failed() {
			harness.EnumerateInputs(t, p, "edge_documents", docs, func(i int, in []byte) harness.Case {
				c := harness.Case{In: in}
				ones := make([]int, len(in))
				for k := range ones {
					ones[k] = 1
				}
				c.SetL("sched", ones)
				c.SetI("eofdata", i%2)
				return c
			}, propStream)
		}
	}
	harness.Run(t, p)
}

// FuzzProperty is the native coverage-guided fuzz entry (thorough tier).
func FuzzProperty(f *testing.F) {
	harness.FuzzTarget(f, plan(), "memory", gen.SeedCorpus())
}
