// Package c17 decides property C17: tag filtering only escapes '<' and leaves
// no filtered element openable for an HTML tokenizer.
package c17

import (
	"bytes"
	"fmt"
	"strings"
	"testing"

	xhtml "golang.org/x/net/html"
	"pgregory.net/rapid"
	"verif/internal/findings"
	"verif/internal/gen"
	"verif/internal/harness"
	cm "zombiezen.com/go/commonmark"
)

func TestMain(m *testing.M) { harness.Main(m) }

var rawText = []string{"script", "style", "title", "textarea", "xmp", "iframe", "noembed", "noframes", "plaintext"}

var extraNames = []string{"div", "b", "a", "p", "pre", "span", "img", "br", "noscript", "em", "code", "li", "svg", "x-y", "h1", "blockquote", "ul", "hr", "strong"}

func predicate(spec string) (func([]byte) bool, func(string) bool) {
	switch spec {
	case "gfm":
		set := map[string]bool{}
		for _, n := range rawText {
			set[n] = true
		}
		return cm.FilterTagGFM, func(n string) bool { return set[n] }
	case "all":
		return func([]byte) bool { return true }, func(string) bool { return true }
	case "none":
		return func([]byte) bool { return false }, func(string) bool { return false }
	}
	set := map[string]bool{}
	for _, n := range rawText {
		set[n] = true
	}
	for _, n := range strings.Split(strings.TrimPrefix(spec, "set:"), ",") {
		if n != "" {
			set[n] = true
		}
	}
	return func(t []byte) bool { return set[string(t)] }, func(n string) bool { return set[n] }
}

// align checks that filtered differs from plain only by '<' -> "&lt;".
func align(plain, filtered string) error {
	i, j := 0, 0
	for i < len(plain) {
		if j < len(filtered) && plain[i] == filtered[j] {
			i++
			j++
			continue
		}
		if plain[i] == '<' && strings.HasPrefix(filtered[j:], "&lt;") {
			i++
			j += 4
			continue
		}
		return fmt.Errorf("outputs diverge at byte %d of the unfiltered output (%q) / %d of the filtered output (%q)", i, clip(plain[i:]), j, clip(filtered[min(j, len(filtered)):]))
	}
	if j != len(filtered) {
		return fmt.Errorf("filtered output has %d extra bytes: %q", len(filtered)-j, clip(filtered[j:]))
	}
	return nil
}

func clip(s string) string {
	if len(s) > 40 {
		return s[:40] + "..."
	}
	return s
}

func startTags(out string, rejects func(string) bool) (rejected []string, all int) {
	z := xhtml.NewTokenizer(strings.NewReader(out))
	for {
		tt := z.Next()
		if tt == xhtml.ErrorToken {
			return
		}
		if tt == xhtml.StartTagToken || tt == xhtml.SelfClosingTagToken {
			name, _ := z.TagName()
			all++
			n := string(name) // the tokenizer lower-cases A-Z, as HTML does; nothing else
			if rejects(n) {
				rejected = append(rejected, n)
			}
		}
	}
}

func prop(c harness.Case) harness.Result {
	blocks, refs := cm.Parse(append([]byte(nil), c.In...))
	var res harness.Result
	specs := []string{"gfm", "all", "none"}
	if s := c.S["names"]; s != "" {
		specs = append(specs, s)
	}
	reused := &cm.HTMLRenderer{}
	for _, cfg := range []struct {
		soft   cm.SoftBreakBehavior
		ignore bool
	}{{cm.SoftBreakPreserve, false}, {cm.SoftBreakHarden, false}, {cm.SoftBreakSpace, true}} {
		// (with IgnoreRaw the predicate still governs the tags the renderer generates)
		soft := cfg.soft
		var pb bytes.Buffer
		(&cm.HTMLRenderer{ReferenceMap: refs, SoftBreakBehavior: soft, IgnoreRaw: cfg.ignore}).Render(&pb, blocks)
		plain := pb.String()
		// one more predicate per case: it rejects exactly the names of the start
		// tags that a tokenizer sees in the unfiltered output (whatever bytes
		// they are made of), so the filter has to arrive at the same names
		seen := map[string]bool{}
		collect := func(n string) bool { seen[n] = true; return false }
		startTags(plain, collect)
		// (a name that stands unterminated at the very end of a raw HTML region
		// runs on, for a tokenizer, into the '<' of the tag the renderer writes
		// next: "<a" + "</li>" is a tag named "a<". A predicate is a set of tag
		// names as they stand in the document; this one therefore also rejects
		// what precedes a '<' inside a name it has seen)
		for n := range seen {
			for i := 1; i < len(n); i++ {
				if n[i] == '<' {
					seen[n[:i]] = true
				}
			}
		}
		for _, n := range rawText {
			seen[n] = true
		}
		for _, spec := range append(specs[:len(specs):len(specs)], "seen") {
			libF, rej := predicate(spec)
			if spec == "seen" {
				if len(seen) == 0 {
					continue
				}
				libF, rej = func(t []byte) bool { return seen[string(t)] }, func(n string) bool { return seen[n] }
			}
			// one renderer value serves all predicates of a case in turn (every other
			// case): what it writes depends on the predicate it has at the call
			var fb bytes.Buffer
			r := &cm.HTMLRenderer{}
			if len(c.In)%2 == 1 {
				r = reused
			}
			r.ReferenceMap, r.SoftBreakBehavior, r.IgnoreRaw, r.FilterTag = refs, soft, cfg.ignore, libF
			r.Render(&fb, blocks)
			filtered := fb.String()
			if err := align(plain, filtered); err != nil {
				res.Err = fmt.Errorf("predicate %s: %v\n unfiltered: %q\n filtered:   %q", spec, err, plain, filtered)
				return res
			}
			if spec == "none" && plain != filtered {
				res.Err = fmt.Errorf("a predicate that rejects nothing changed the output:\n unfiltered: %q\n filtered:   %q", plain, filtered)
				return res
			}
			if bad, _ := startTags(filtered, rej); len(bad) > 0 {
				res.Err = fmt.Errorf("predicate %s: the tokenizer still sees start tag(s) %v in the filtered output %q (unfiltered %q)", spec, bad, filtered, plain)
				return res
			}
			if spec != "none" {
				if had, _ := startTags(plain, rej); len(had) > 0 {
					res.Nontrivial = true
					res.Labels = append(res.Labels, "filter_had_work:"+strings.SplitN(spec, ":", 2)[0])
				}
			}
		}
	}
	if bytes.Contains(c.In, []byte("<!--")) {
		res.Labels = append(res.Labels, "has_comment_open")
	}
	if bytes.Contains(c.In, []byte("<![CDATA[")) {
		res.Labels = append(res.Labels, "has_cdata_open")
	}
	return res
}

// genStructured: a paragraph with inline raw HTML (comments, declarations,
// tags) followed, in the same container, by an HTML block with rejected tags;
// state kept by the renderer between an inline construct and a following block
// shows only in this shape.
func genStructured(t *rapid.T) []byte {
	inl := []string{"<!-- c -->", "<b>", "</b>", "<?x ?>", "<!DOCTYPE x>", "<![CDATA[x]]>", "<STRONG>", "</STRONG>", "<a href=\">\">", "<!--->", "text", "`<script>`", "<span\nclass=x>", "<!-- a\nb -->"}
	starts := []string{"<div>", "<DIV>", "<pre>", "<script>", "<!--", "<?", "<table>", "<style>", "</div>", "<p>"}
	body := []string{"<script>x</script>", "<SCRIPT>", "<style>", "<title>t", "<xmp>", "<iframe src=x>", "<textarea>", "x <plaintext>", "-->", "?>", "</pre>", "</script>", "<noembed>", "<b>ok</b>", "<STYLE>", "<TITLE>"}
	prefix, cont := "", ""
	switch rapid.IntRange(0, 4).Draw(t, "cont") {
	case 1:
		prefix, cont = "> ", "> "
	case 2:
		prefix, cont = "- ", "  "
	case 3:
		prefix, cont = "> - ", ">   "
	case 4:
		prefix, cont = "1. ", "   "
	}
	var lines []string
	np := rapid.IntRange(0, 3).Draw(t, "nparts")
	para := "a"
	for i := 0; i < np; i++ {
		para += " " + inl[rapid.IntRange(0, len(inl)-1).Draw(t, "inl")]
	}
	if rapid.Bool().Draw(t, "tail") {
		para += " b"
	}
	lines = append(lines, strings.Split(para, "\n")...)
	if rapid.Bool().Draw(t, "blank") {
		lines = append(lines, "")
	}
	lines = append(lines, starts[rapid.IntRange(0, len(starts)-1).Draw(t, "start")])
	nb := rapid.IntRange(1, 3).Draw(t, "nbody")
	for i := 0; i < nb; i++ {
		lines = append(lines, body[rapid.IntRange(0, len(body)-1).Draw(t, "body")])
	}
	var sb strings.Builder
	for i, l := range lines {
		if i == 0 {
			sb.WriteString(prefix)
		} else {
			sb.WriteString(cont)
		}
		sb.WriteString(l)
		sb.WriteString("\n")
	}
	return []byte(sb.String())
}

func genCase(t *rapid.T) harness.Case {
	var c harness.Case
	switch k := rapid.IntRange(0, 11).Draw(t, "g"); {
	case k >= 10:
		c.In = genStructured(t)
	case k < 6:
		c.In = gen.HTMLSoup().Draw(t, "html")
	case k < 8:
		c.In = gen.Doc().Draw(t, "doc")
	default:
		c.In = gen.Sink().Draw(t, "sink")
	}
	if n := rapid.IntRange(0, 3).Draw(t, "nnames"); n > 0 {
		var names []string
		for i := 0; i < n; i++ {
			names = append(names, extraNames[rapid.IntRange(0, len(extraNames)-1).Draw(t, "name")])
		}
		c.SetS("names", "set:"+strings.Join(names, ","))
	}
	return c
}

const rule = "raw-HTML-heavy inputs (comments incl. <!-->, <!--->, --!>, CDATA, declarations, processing instructions, stray '<', mixed-case names, attributes containing '>', raw-text elements; 60%), G1/G2/G3 (20%), sink templates (20%) x predicates {GFM, reject-all, reject-none, generated name set that contains the nine raw-text elements} x 2 soft-break behaviours; oracle = filtered output aligns with the unfiltered one under '<' -> '&lt;' only, reject-none is the identity, and x/net/html's tokenizer sees no start tag with a rejected name in the filtered output; non-trivial = the tokenizer sees a rejected start tag in the unfiltered output (the filter had work to do)"

func plan() harness.Plan {
		return harness.Plan{Prop: "C17", Suppress: findings.Suppressor("C17"), Checks: []harness.Check{
		{Name: "filter", Quick: 80000, Thorough: 1000000, Gen: genCase, Prop: prop, Rule: rule},
	}}
}

// nameLengthDocs puts a tag whose name has every length of a range into an
// HTML block, a paragraph and a line of its own: anything in the filter that is
// bounded or indexed by the length of a name is crossed at every size.
func nameLengthDocs(thorough bool) ([][]byte, []string) {
	var lens []int
	if thorough {
		for l := 1; l <= 1100; l++ {
			lens = append(lens, l)
		}
	} else {
		for l := 1; l <= 70; l++ {
			lens = append(lens, l)
		}
		for _, c := range []int{128, 256, 512, 1024, 4096} {
			lens = append(lens, c-1, c, c+1)
		}
	}
	var docs [][]byte
	var names []string
	for _, l := range lens {
		forms := []string{strings.Repeat("a", l), "s" + strings.Repeat("C", l-1)}
		if l >= 6 {
			forms = append(forms, "script"+strings.Repeat("-", l-6))
		}
		if l%2 == 0 {
			forms = append(forms, strings.Repeat("<a", l/2)[1:])
		}
		for _, n := range forms {
			low := strings.ToLower(n)
			for _, d := range []string{"<div>\n<" + n + ">\n</div>\n", "a <" + n + "> b\n", "<" + n + " x=y>\n", "> - <" + n + "\n>   y='>'>\n"} {
				docs = append(docs, []byte(d))
				names = append(names, low)
			}
		}
	}
	return docs, names
}

func TestProperty(t *testing.T) {
	p := plan()
	p.Checks = append(p.Checks, harness.Check{Name: "name_lengths", Prop: prop, Rule: "enumerated: a tag whose name has every length 1..70 and around 128, 256, 512, 1024, 4096 (thorough: every length to 1100), as one letter repeated, in mixed case, as 'script' plus hyphens and as a run of '<a', in an HTML block, a paragraph, a line of its own and split over two lines in a container, under reject-all, GFM, reject-none and the predicate that rejects exactly that name: " + rule})
	p.After = func(t *testing.T) {
		docs, names := nameLengthDocs(harness.Cfg().Tier == "thorough")
		harness.EnumerateInputs(t, p, "name_lengths", docs, func(i int, in []byte) harness.Case {
			c := harness.Case{In: in}
			c.SetS("names", "set:"+names[i])
			return c
		}, prop)
	}
	harness.Run(t, p)
}

// FuzzProperty is the native coverage-guided fuzz entry (thorough tier).
func FuzzProperty(f *testing.F) {
	harness.FuzzTarget(f, plan(), "filter", gen.SeedCorpus())
}

func min(a, b int) int {
	if a < b {
		return a
	}
	return b
}
