// Package c13 decides property C13 (see DESIGN.md section 6) with the shared
// tree oracle of internal/tree over generated inputs.
package c13

import (
	"testing"

	"verif/internal/findings"
	"verif/internal/gen"
	"verif/internal/harness"
	"verif/internal/treeprop"
)

func TestMain(m *testing.M) { harness.Main(m) }

func TestProperty(t *testing.T) {
	harness.Run(t, treeprop.Plan("C13", findings.Suppressor("C13")))
}

// FuzzProperty is the native coverage-guided fuzz entry (thorough tier).
func FuzzProperty(f *testing.F) {
	harness.FuzzTarget(f, treeprop.Plan("C13", findings.Suppressor("C13")), "memory", gen.SeedCorpus())
}
