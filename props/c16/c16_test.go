// Package c16 decides property C16: every root block re-parsed on its own
// (same reference matcher) yields exactly one root block with an identical
// tree.
package c16

import (
	"bytes"
	"fmt"
	"io"
	"testing"

	"pgregory.net/rapid"
	"verif/internal/findings"
	"verif/internal/gen"
	"verif/internal/harness"
	"verif/internal/tree"
	cm "zombiezen.com/go/commonmark"
)

func TestMain(m *testing.M) { harness.Main(m) }

// chunkReader delivers a block's Source in pieces that are a pure function of
// the bytes: mode 1 = one byte per Read, mode 2 = every Read ends directly
// after the next CR or LF (so a CRLF pair is split and a bare CR is always the
// last byte of a read), mode 3 = 7 bytes per Read.
type chunkReader struct {
	data []byte
	pos  int
	mode int
}

func (r *chunkReader) Read(p []byte) (int, error) {
	if r.pos >= len(r.data) {
		return 0, io.EOF
	}
	n := 1
	switch r.mode {
	case 2:
		if i := bytes.IndexAny(r.data[r.pos:], "\r\n"); i >= 0 {
			n = i + 1
		} else {
			n = len(r.data) - r.pos
		}
	case 3:
		n = 7
	}
	if n > len(r.data)-r.pos {
		n = len(r.data) - r.pos
	}
	if n > len(p) {
		n = len(p)
	}
	copy(p, r.data[r.pos:r.pos+n])
	r.pos += n
	return n, nil
}

func prop(c harness.Case) harness.Result {
	blocks, refs := cm.Parse(append([]byte(nil), c.In...))
	res := harness.Result{Labels: gen.Classify(c.In)}
	excluded := 0
	for bi, b := range blocks {
		if k := b.Kind(); (k == cm.ParagraphKind || k == cm.SetextHeadingKind) && bi > 0 &&
			blocks[bi-1].Kind() == cm.LinkReferenceDefinitionKind && blocks[bi-1].EndOffset == b.StartOffset {
			excluded++
			continue
		}
		switch b.Kind() {
		case cm.BlockQuoteKind, cm.ListKind, cm.IndentedCodeBlockKind, cm.FencedCodeBlockKind, cm.HTMLBlockKind:
			if len(blocks) >= 2 {
				res.Nontrivial = true
			}
		}
		if n := len(b.Source); len(blocks) >= 2 && n > 0 && b.Source[n-1] != '\n' && b.Source[n-1] != '\r' {
			res.Nontrivial = true
		}
		var rd io.Reader = bytes.NewReader(b.Source)
		if m := c.I["rmode"]; m > 0 {
			rd = &chunkReader{data: b.Source, mode: m}
		}
		p := cm.NewBlockParser(rd)
		var got []*cm.RootBlock
		for {
			nb, err := p.NextBlock()
			if err == io.EOF {
				break
			}
			if err != nil {
				res.Err = fmt.Errorf("re-parsing block %d %q: error %v", bi, b.Source, err)
				return res
			}
			got = append(got, nb)
			if len(got) > len(b.Source)+1 {
				break
			}
		}
		if len(got) != 1 {
			res.Err = fmt.Errorf("block %d (%v) %q re-parsed on its own gives %d root blocks", bi, b.Kind(), b.Source, len(got))
			return res
		}
		(&cm.InlineParser{ReferenceMatcher: refs}).Rewrite(got[0])
		if !bytes.Equal(got[0].Source, b.Source) {
			res.Err = fmt.Errorf("block %d %q: re-parsed Source %q", bi, b.Source, got[0].Source)
			return res
		}
		if a, w := tree.Dump(got[0].Source, got[0].AsNode()), tree.Dump(b.Source, b.AsNode()); a != w {
			res.Err = fmt.Errorf("block %d %q re-parsed on its own differs:\nalone:\n%s\nin document:\n%s", bi, b.Source, a, w)
			return res
		}
	}
	if excluded > 0 {
		res.Labels = append(res.Labels, "has_excluded_remainder_paragraph")
	}
	if len(blocks) >= 2 {
		res.Labels = append(res.Labels, "blocks>=2")
	}
	res.Labels = append(res.Labels, fmt.Sprintf("reader_mode=%d", c.I["rmode"]))
	return res
}

const rule = "documents from G1/G2/G3, every root block re-parsed alone with the document's reference map, its Source delivered by bytes.Reader in one piece, one byte per read, one line ending per read (CRLF split, a bare CR last in its read) or 7 bytes per read; excluded exactly: a Paragraph/SetextHeading whose StartOffset equals the EndOffset of a preceding LinkReferenceDefinition root block; non-trivial = document has >= 2 root blocks and some block is a container, code block or HTML block, or ends without a line ending"

func withReader(t *rapid.T, c harness.Case) harness.Case {
	// half of the cases use the plain reader, the rest one of the chunked ones
	if m := rapid.IntRange(0, 5).Draw(t, "rmode"); m >= 3 {
		c.SetI("rmode", m-2)
	}
	return c
}

func plan() harness.Plan {
		return harness.Plan{Prop: "C16", Suppress: findings.Suppressor("C16"), Checks: []harness.Check{
		{Name: "reparse", Quick: 100000, Thorough: 1500000, Gen: func(t *rapid.T) harness.Case { return withReader(t, harness.Case{In: gen.Doc().Draw(t, "in")}) }, Prop: prop, Rule: rule},
		{Name: "reparse_accumulating", Quick: 250, Thorough: 6000, Gen: func(t *rapid.T) harness.Case { return withReader(t, harness.Case{In: gen.AccumDoc().Draw(t, "in")}) }, Prop: prop, Rule: "documents of 40-450 small root blocks (gen.AccumDoc): hundreds of blocks that leave one kind of inline opener open (brackets, backtick runs, delimiter runs, unfinished tags, comments, destinations), then blocks with complete constructs of every kind; whatever the parser remembers from earlier root blocks must not change a later one: " + rule},
		{Name: "reparse_documents", Quick: 60, Thorough: 1500, Gen: func(t *rapid.T) harness.Case { return withReader(t, harness.Case{In: gen.LongDoc(12000, 50000).Draw(t, "in")}) }, Prop: prop, Rule: "documents of 12-50 KB with hundreds of root blocks (gen.LongDoc, half of them with NULs): " + rule},
		{Name: "reparse_lines", Quick: 50000, Thorough: 700000, Gen: func(t *rapid.T) harness.Case { return withReader(t, harness.Case{In: gen.Lines().Draw(t, "in")}) }, Prop: prop, Rule: "G2 only: " + rule},
	}}
}

func TestProperty(t *testing.T) {
	p := plan()
	p.Checks = append(p.Checks, harness.Check{Name: "edge_documents", Prop: prop, Rule: "enumerated: every special line as the last line of every context (gen.EdgeDocs), re-parsed through all four readers: " + rule})
	p.After = func(t *testing.T) {
		harness.EnumerateInputs(t, p, "edge_documents", gen.EdgeDocs(), func(i int, in []byte) harness.Case {
			c := harness.Case{In: in}
			c.SetI("rmode", i%4)
			return c
		}, prop)
	}
	harness.Run(t, p)
}

// FuzzProperty is the native coverage-guided fuzz entry (thorough tier).
func FuzzProperty(f *testing.F) {
	harness.FuzzTarget(f, plan(), "reparse", gen.SeedCorpus())
}
