// Package c04 decides property C04 (totality): parsing through both entry
// points, rendering under every configuration, formatting and walking return,
// do not panic, and report no error on healthy readers and writers.
package c04

import (
	"bytes"
	"fmt"
	"io"
	"runtime/debug"
	"strings"
	"testing"
	"time"
	"unicode/utf8"

	"pgregory.net/rapid"
	"verif/internal/gen"
	"verif/internal/harness"
	"verif/internal/tree"
	cm "zombiezen.com/go/commonmark"
	"zombiezen.com/go/commonmark/format"
)

func TestMain(m *testing.M) { harness.Main(m) }

type acceptAll struct{}

func (acceptAll) MatchReference(string) bool { return true }

type plainWriter struct{ n int }

func (w *plainWriter) Write(p []byte) (int, error) { w.n += len(p); return len(p), nil }

var filters = []struct {
	name string
	f    func([]byte) bool
}{
	{"nil", nil},
	{"gfm", cm.FilterTagGFM},
	{"always", func([]byte) bool { return true }},
	{"never", func([]byte) bool { return false }},
}

// pipeline runs everything the property names on one input and returns the
// first failure.
func pipeline(in []byte, sched []int, eofData bool) (stage string, err error) {
	return pipelineMode(in, sched, eofData, false)
}

// pipelineMode: light = a diagonal of the renderer configurations only (used
// by the enumerated run-length check, whose cases differ in one number).
func pipelineMode(in []byte, sched []int, eofData, light bool) (stage string, err error) {
	defer func() {
		if p := recover(); p != nil {
			err = fmt.Errorf("panic in %s: %v\n%s", stage, p, debug.Stack())
		}
	}()
	stage = "Parse"
	blocks, refs := cm.Parse(append([]byte(nil), in...))

	stage = "NextBlock/Extract/Rewrite"
	sblocks, srefs, serr := tree.StreamParse(gen.NewSchedReader(in, sched, eofData, -1))
	if serr != nil {
		return stage, fmt.Errorf("streaming parse reported %v, want only io.EOF", serr)
	}
	// extra calls after the end keep reporting EOF and a fresh parser on an empty reader too
	stage = "NextBlock after end"
	bp := cm.NewBlockParser(bytes.NewReader(in))
	for {
		_, e := bp.NextBlock()
		if e == io.EOF {
			break
		}
		if e != nil {
			return stage, fmt.Errorf("NextBlock reported %v", e)
		}
	}
	for i := 0; i < 2; i++ {
		if b, e := bp.NextBlock(); e != io.EOF || b != nil {
			return stage, fmt.Errorf("NextBlock after end of input returned (%v, %v), want (nil, io.EOF)", b, e)
		}
	}

	// the zero values of the parser and renderer types are usable: an
	// InlineParser without a ReferenceMatcher, a renderer without a reference map
	stage = "NextBlock + zero-value InlineParser.Rewrite + zero-value HTMLRenderer"
	{
		zp := cm.NewBlockParser(bytes.NewReader(in))
		var zblocks []*cm.RootBlock
		for {
			b, e := zp.NextBlock()
			if e != nil {
				break
			}
			new(cm.InlineParser).Rewrite(b)
			zblocks = append(zblocks, b)
		}
		// a matcher of the caller's own (not a ReferenceMap) that accepts every
		// label: all bracketed text becomes reference links whose labels no
		// map knows; rendering them with an empty, a nil and an unrelated map
		// still returns
		ap := cm.NewBlockParser(bytes.NewReader(in))
		var ablocks []*cm.RootBlock
		for {
			b, e := ap.NextBlock()
			if e != nil {
				break
			}
			(&cm.InlineParser{ReferenceMatcher: acceptAll{}}).Rewrite(b)
			ablocks = append(ablocks, b)
		}
		var ab bytes.Buffer
		for _, rm := range []cm.ReferenceMap{nil, {}, {"r": cm.LinkDefinition{Destination: "/x"}}} {
			if e := (&cm.HTMLRenderer{ReferenceMap: rm}).Render(&ab, ablocks); e != nil {
				return stage, fmt.Errorf("Render returned %v", e)
			}
		}
		if e := format.Format(&ab, ablocks); e != nil {
			return stage, fmt.Errorf("Format returned %v", e)
		}
		var zb bytes.Buffer
		if e := new(cm.HTMLRenderer).Render(&zb, zblocks); e != nil {
			return stage, fmt.Errorf("Render returned %v", e)
		}
		if e := cm.RenderHTML(&zb, zblocks, nil); e != nil {
			return stage, fmt.Errorf("RenderHTML with a nil reference map returned %v", e)
		}
		if e := format.Format(&zb, zblocks); e != nil {
			return stage, fmt.Errorf("Format returned %v", e)
		}
		// blocks that were never rewritten (block structure only) render and format too
		up := cm.NewBlockParser(bytes.NewReader(in))
		var ublocks []*cm.RootBlock
		for {
			b, e := up.NextBlock()
			if e != nil {
				break
			}
			ublocks = append(ublocks, b)
		}
		if !light {
			stage = "Render/Format/Walk of blocks without inline parsing"
			if e := cm.RenderHTML(&zb, ublocks, nil); e != nil {
				return stage, fmt.Errorf("RenderHTML returned %v", e)
			}
			if e := format.Format(&zb, ublocks); e != nil {
				return stage, fmt.Errorf("Format returned %v", e)
			}
			for _, b := range ublocks {
				cm.Walk(b.AsNode(), &cm.WalkOptions{Pre: func(c *cm.Cursor) bool { return true }})
			}
		}
	}

	for which, set := range [][]*cm.RootBlock{blocks, sblocks} {
		rm := refs
		if which == 1 {
			rm = srefs
		}
		for _, sb := range []cm.SoftBreakBehavior{cm.SoftBreakPreserve, cm.SoftBreakSpace, cm.SoftBreakHarden} {
			for _, ign := range []bool{false, true} {
				for fi, fl := range filters {
					if (light || len(in) > 4096) && (int(sb)+fi)%4 != 0 {
						continue // long inputs: a diagonal of the configuration cube keeps the case cheap
					}
					stage = fmt.Sprintf("Render(soft=%v,ignoreRaw=%v,filter=%s)", sb, ign, fl.name)
					r := &cm.HTMLRenderer{ReferenceMap: rm, SoftBreakBehavior: sb, IgnoreRaw: ign, FilterTag: fl.f}
					var buf bytes.Buffer
					if e := r.Render(&buf, set); e != nil {
						return stage, fmt.Errorf("Render returned %v on a bytes.Buffer", e)
					}
					if which == 0 && sb == cm.SoftBreakPreserve && fl.name == "gfm" {
						stage = "AppendBlock"
						var dst []byte
						for _, b := range set {
							dst = r.AppendBlock(dst, b)
						}
					}
				}
			}
		}
		stage = "RenderHTML"
		if e := cm.RenderHTML(&plainWriter{}, set, rm); e != nil {
			return stage, fmt.Errorf("RenderHTML returned %v", e)
		}
		stage = "Format"
		var fb bytes.Buffer
		if e := format.Format(&fb, set); e != nil {
			return stage, fmt.Errorf("Format returned %v on a bytes.Buffer", e)
		}
		if e := format.Format(&plainWriter{}, set); e != nil {
			return stage, fmt.Errorf("Format returned %v on a plain io.Writer", e)
		}
		stage = "Walk"
		for _, b := range set {
			pre, post := 0, 0
			cm.Walk(b.AsNode(), &cm.WalkOptions{
				Pre:  func(c *cm.Cursor) bool { pre++; c.Node(); c.Parent(); c.ParentBlock(); c.Index(); return true },
				Post: func(c *cm.Cursor) bool { post++; return true },
			})
			if pre != post || pre == 0 {
				return stage, fmt.Errorf("Walk made %d Pre and %d Post calls", pre, post)
			}
			cm.Walk(b.AsNode(), &cm.WalkOptions{})
		}
		// a traversal that the caller cuts short (Post or Pre returning false
		// at some ordinal) must leave nothing behind: the calls that follow it
		// on the same goroutine behave as before
		stage = "Walk aborted, then Render/Format/Walk again"
		for _, b := range set {
			for _, k := range []int{0, 1, 3, 9} {
				post := 0
				cm.Walk(b.AsNode(), &cm.WalkOptions{Post: func(c *cm.Cursor) bool { post++; return post <= k }})
				pre := 0
				cm.Walk(b.AsNode(), &cm.WalkOptions{Pre: func(c *cm.Cursor) bool { pre++; return pre <= k+1 }})
				if post <= k {
					break // the tree has fewer nodes than the abort point
				}
			}
		}
		var fb2 bytes.Buffer
		if e := format.Format(&fb2, set); e != nil {
			return stage, fmt.Errorf("Format returned %v on a bytes.Buffer", e)
		}
		if !bytes.Equal(fb.Bytes(), fb2.Bytes()) {
			return stage, fmt.Errorf("Format after aborted walks wrote %q, before them %q", fb2.Bytes(), fb.Bytes())
		}
		if e := cm.RenderHTML(&plainWriter{}, set, rm); e != nil {
			return stage, fmt.Errorf("RenderHTML returned %v", e)
		}
		for _, b := range set {
			pre, post := 0, 0
			cm.Walk(b.AsNode(), &cm.WalkOptions{
				Pre:  func(c *cm.Cursor) bool { pre++; return true },
				Post: func(c *cm.Cursor) bool { post++; return true },
			})
			if pre != post || pre == 0 {
				return stage, fmt.Errorf("Walk after aborted walks made %d Pre and %d Post calls", pre, post)
			}
		}
		stage = "accessors"
		for _, b := range set {
			tree.Dump(b.Source, b.AsNode())
		}
	}
	return "", nil
}

// unterminated reports cheap syntactic signs of a construct left open at EOF.
func unterminated(in []byte) bool {
	open := 0
	ticks := 0
	for _, c := range in {
		switch c {
		case '[':
			open++
		case ']':
			if open > 0 {
				open--
			}
		case '`':
			ticks++
		}
	}
	if open > 0 || ticks%2 == 1 {
		return true
	}
	if i := bytes.LastIndex(in, []byte("<!--")); i >= 0 && !bytes.Contains(in[i:], []byte("-->")) {
		return true
	}
	if n := bytes.Count(in, []byte("```")) + bytes.Count(in, []byte("~~~")); n%2 == 1 {
		return true
	}
	return false
}

func depth(in []byte) int {
	blocks, _ := cm.Parse(append([]byte(nil), in...))
	d := 0
	for _, b := range blocks {
		if s := tree.Summarize(b); s.Depth > d {
			d = s.Depth
		}
	}
	return d
}

func prop(c harness.Case) harness.Result {
	limit := 20 * time.Second
	if len(c.In) > 4096 {
		limit = 120 * time.Second
	}
	type out struct {
		stage string
		err   error
	}
	ch := make(chan out, 1)
	go func() {
		st, err := pipelineMode(c.In, c.L["sched"], c.I["eofdata"] == 1, c.I["light"] == 1)
		ch <- out{st, err}
	}()
	var res harness.Result
	res.Labels = gen.Classify(c.In)
	var o out
	select {
	case o = <-ch:
	case <-time.After(limit):
		// give it the same time again before calling it non-termination
		select {
		case o = <-ch:
		case <-time.After(limit):
			res.Err = fmt.Errorf("did not return within %v (watchdog, waited twice)", limit)
			res.Nontrivial = true
			res.NoShrink = true
			return res
		}
	}
	res.Err = o.err
	invalid := !utf8.Valid(c.In)
	if invalid {
		res.Labels = append(res.Labels, "invalid_utf8")
	}
	unt := unterminated(c.In)
	if unt {
		res.Labels = append(res.Labels, "unterminated_at_eof")
	}
	deep := false
	if len(c.In) > 64 {
		if depth(c.In) >= 16 {
			deep = true
			res.Labels = append(res.Labels, "depth>=16")
		}
	}
	res.Nontrivial = invalid || unt || deep || bytes.IndexByte(c.In, 0) >= 0 || hasLoneCR(c.In)
	return res
}

func hasLoneCR(in []byte) bool {
	for i, c := range in {
		if c == '\r' && (i+1 >= len(in) || in[i+1] != '\n') {
			return true
		}
	}
	return false
}

func genDoc(t *rapid.T) harness.Case {
	c := harness.Case{In: gen.Doc().Draw(t, "in")}
	c.SetL("sched", gen.Schedule(t, c.In))
	if rapid.Bool().Draw(t, "eofdata") {
		c.SetI("eofdata", 1)
	}
	return c
}

func genLong(t *rapid.T) harness.Case {
	c := harness.Case{In: gen.Long(2000, 16000).Draw(t, "in")}
	c.SetL("sched", gen.Schedule(t, c.In))
	return c
}

// genNest: pathological nesting, 2-20k repetitions of one opener.
func genNest(t *rapid.T) harness.Case {
	pats := []string{"[", "*", "_", "`", ">", "- ", "<", "![", "](", "[a](", "*a ", "**", "__a", "\\", "&", "<a ", "> - ", "1. ", "[[", "]", "(", "<!--", "`a", "~", "\t", "*_", "_*", "[![", "<<", "&#", "``"}
	n := rapid.IntRange(200, 20000).Draw(t, "reps")
	p := pats[rapid.IntRange(0, len(pats)-1).Draw(t, "pat")]
	for n*len(p) > 12000 {
		n /= 2
	}
	in := bytes.Repeat([]byte(p), n)
	switch rapid.IntRange(0, 3).Draw(t, "tail") {
	case 1:
		in = append(in, "a"...)
	case 2:
		in = append(in, "\n"...)
	case 3:
		in = append(in, bytes.Repeat([]byte("]"), rapid.IntRange(1, 300).Draw(t, "close"))...)
	}
	return harness.Case{In: in}
}

// ---- enumerated run lengths: every length 1..N of a run of one unit, in a set
// of templates, so that any table, counter or buffer sized or indexed by a run
// length (backtick strings, delimiter runs, fences, indentation, digits,
// brackets, NULs) is crossed at every power of two on the way.
var runUnits = []string{"`", "*", "_", "~", "#", "-", "=", ">", "[", "]", "(", ")", "<", "&", ";", "9", " ", "\t", "\\", "!", "\x00", "\r", "\n", "+", ":", "\"", "'", "a", "é", "\xff", "> ", "- ", "![", "](", "<!", "&#", "**_"}

var runTemplates = []func(r string) string{
	func(r string) string { return r },
	func(r string) string { return r + "a" },
	func(r string) string { return "a" + r + "a" + r },
	func(r string) string { return "a " + r + " b" },
	func(r string) string { return "> " + r + "a\n> b" },
	func(r string) string { return "- " + r + "\n  a" },
	func(r string) string { return "# " + r + " #" },
	func(r string) string { return "[" + r + "](" + r + ")" },
	func(r string) string { return "```" + r + "\n" + r },
	func(r string) string { return "<a " + r + ">" },
	func(r string) string { return r + "\n" + r + "\n" },
	func(r string) string { return "[a]: " + r + "\n\n[a]" },
	func(r string) string { return "[" + r + "]: /u\n\n[" + r + "]" },
	func(r string) string { return "`" + r + "`" },
}

func runLengths(quick bool) []int {
	var ls []int
	max := 1100
	if quick {
		max = 40
	}
	for i := 1; i <= max; i++ {
		ls = append(ls, i)
	}
	if quick {
		ls = append(ls, 63, 64, 65, 127, 128, 129, 255, 256, 257, 511, 512, 513, 999, 1000, 1023, 1024, 1025)
	}
	return ls
}

func runLengthCheck(t *testing.T, p harness.Plan) {
	const name = "run_lengths"
	cfg := harness.Cfg()
	shards := 1
	if cfg.Tier == "thorough" {
		shards = 16
	}
	ls := runLengths(cfg.Tier != "thorough")
	idx, n := 0, 0
	for ui, u := range runUnits {
		for ti, tf := range runTemplates {
			for _, l := range ls {
				idx++
				if idx%shards != cfg.Shard%shards {
					continue
				}
				if l*len(u) > 3000 {
					continue
				}
				c := harness.Case{In: []byte(tf(strings.Repeat(u, l)))}
				c.SetI("light", 1)
				harness.NoteInflight("C04", name, &c)
				res := safePropLocal(c)
				n++
				harness.Count(name, &c, true, fmt.Sprintf("unit_%d", ui), fmt.Sprintf("template_%d", ti))
				if res.Err != nil {
					if harness.Fail(t, p, name, c, res.Err) {
						return
					}
				}
			}
		}
	}
	harness.SetExhaustive(name, fmt.Sprintf("%d units x %d templates x run lengths 1..%d (quick: 1..40 and around 64, 128, 256, 512, 999, 1024), runs longer than 3000 bytes skipped", len(runUnits), len(runTemplates), ls[len(ls)-1]))
}

// bigUnits do not nest, so a run of tens of thousands of them stays cheap; the
// lengths cross the sizes at which fixed buffers, chunked reads and narrow
// counters would end (a label buffer of four bytes per character, a 4 KiB or
// 8 KiB scratch array, a 16-bit length).
var bigUnits = []string{"a", "é", " ", "9", "\x00", "\xff", ";", ":", "\"", "'", "=", "~", "+", "&", "#", ")", "!", "`", "a b ", "\t"}

func bigLengths(quick bool) []int {
	if quick {
		return []int{2048, 4097, 8193, 20000}
	}
	var ls []int
	for _, c := range []int{2048, 4096, 8192, 16384, 32768, 65536} {
		ls = append(ls, c-1, c, c+1)
	}
	return append(ls, 1500, 3000, 3995, 3996, 3997, 4000, 5000, 10000, 20000, 40000, 100000)
}

func bigRunCheck(t *testing.T, p harness.Plan) {
	const name = "long_interiors"
	cfg := harness.Cfg()
	shards := 1
	if cfg.Tier == "thorough" {
		shards = 16
	}
	ls := bigLengths(cfg.Tier != "thorough")
	idx := 0
	for ui, u := range bigUnits {
		for ti, tf := range runTemplates {
			for _, l := range ls {
				idx++
				if idx%shards != cfg.Shard%shards {
					continue
				}
				c := harness.Case{In: []byte(tf(strings.Repeat(u, l/len(u))))}
				c.SetI("light", 1)
				harness.NoteInflight("C04", name, &c)
				res := safePropLocal(c)
				harness.Count(name, &c, true, fmt.Sprintf("unit_%d", ui), fmt.Sprintf("template_%d", ti))
				if res.Err != nil {
					if harness.Fail(t, p, name, c, res.Err) {
						return
					}
				}
			}
		}
	}
	harness.SetExhaustive(name, fmt.Sprintf("%d non-nesting units x %d templates x %d lengths from 1500 to %d bytes", len(bigUnits), len(runTemplates), len(ls), ls[len(ls)-1]))
}

func edgeCheck(t *testing.T, p harness.Plan) {
	harness.EnumerateInputs(t, p, "edge_documents", gen.EdgeDocs(), func(i int, in []byte) harness.Case {
		c := harness.Case{In: in}
		c.SetI("light", 1)
		return c
	}, safePropLocal)
}

func safePropLocal(c harness.Case) (r harness.Result) {
	defer func() {
		if p := recover(); p != nil {
			r.Err = fmt.Errorf("panic: %v\n%s", p, debug.Stack())
		}
	}()
	return prop(c)
}

const rule = "every stage (Parse; NextBlock+Extract+Rewrite under a G5 schedule; zero-value InlineParser and HTMLRenderer, nil reference map, blocks without inline parsing; Render under 3 soft-break x IgnoreRaw x FilterTag{nil,GFM,always,never}; AppendBlock; RenderHTML; Format on Buffer and plain Writer; Walk; walks cut short by Pre/Post returning false followed by Format, RenderHTML and Walk again; every accessor) under recover and a watchdog; non-trivial = input has invalid UTF-8, NUL, a lone CR, an unterminated construct at EOF (open bracket, odd backtick count, open comment, odd fence count) or parses to depth >= 16"

func plan() harness.Plan {
		return harness.Plan{Prop: "C04", Inflight: true, Checks: []harness.Check{
		{Name: "pipeline", Quick: 40000, Thorough: 600000, Gen: genDoc, Prop: prop, Rule: "G1/G2/G3 inputs: " + rule},
		{Name: "long", Quick: 60, Thorough: 600, Gen: genLong, Prop: prop, Rule: "G1 long mode 2-16 KB: " + rule},
		{Name: "run_lengths", Prop: prop, Rule: "enumerated: a run of one unit (37 units: every markdown-significant character, white space, NUL, invalid UTF-8, short openers) at every length in 14 templates (bare, in text, quoted, in a list item, heading, link text and destination, fence info and content, tag attribute, two lines, definition destination, label, code span); a diagonal of the renderer configurations"},
		{Name: "long_interiors", Prop: prop, Rule: "enumerated: a run of 2048, 4097, 8193 and 20000 bytes (thorough: 29 lengths from 1500 to 100000, around every power of two) of one of 20 units that neither nest nor make the library's inline scan quadratic (runs of ']' and of backslashes do: 5000 of them take a second, which is slow, not a violation), inside each of the 14 templates (text, label, destination, title-less definition, link text, info string, code span, attribute, heading): constructs with very long interiors; a diagonal of the renderer configurations"},
		{Name: "edge_documents", Prop: prop, Rule: "enumerated: gen.EdgeDocs (every special line as the last line of every open context) and gen.TruncDocs (60 complete constructs cut after every byte, as the last bytes of a document, a heading, a quote, a list item and an enclosing inline construct, with LF, CRLF and CR): unterminated constructs at the end of input; a diagonal of the renderer configurations"},
		{Name: "nesting", Quick: 60, Thorough: 600, Gen: genNest, Prop: prop, Rule: "200-12000 repetitions of one opener (<= 12 KB; the library is quadratic to cubic in nesting depth, so sizes are bounded to keep the watchdog two orders of magnitude above the slowest case): " + rule},
	}}
}

func TestProperty(t *testing.T) {
	p := plan()
	p.After = func(t *testing.T) {
		runLengthCheck(t, p)
		if !t.Failed() {
			bigRunCheck(t, p)
		}
		if !t.Failed() {
			edgeCheck(t, p)
		}
	}
	harness.Run(t, p)
}

// FuzzProperty is the native coverage-guided fuzz entry (thorough tier).
func FuzzProperty(f *testing.F) {
	harness.FuzzTarget(f, plan(), "pipeline", gen.SeedCorpus())
}
