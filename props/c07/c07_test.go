// Package c07 decides property C07: without raw HTML the output is
// well-formed, fixed-vocabulary, fully escaped HTML.
package c07

import (
	"bytes"
	"fmt"
	"io"
	"regexp"
	"sort"
	"strings"
	"testing"

	xhtml "golang.org/x/net/html"
	"pgregory.net/rapid"
	"verif/internal/entities"
	"verif/internal/findings"
	"verif/internal/gen"
	"verif/internal/harness"
	"verif/internal/htmlnorm"
	"verif/internal/refrender"
	"verif/internal/tree"
	cm "zombiezen.com/go/commonmark"
)

func TestMain(m *testing.M) { harness.Main(m) }

var allowedAttrs = map[string][]string{"code": {"class"}, "ol": {"start"}, "a": {"href", "title"}, "img": {"src", "title", "alt"}}
var elems = map[string]bool{"p": true, "h1": true, "h2": true, "h3": true, "h4": true, "h5": true, "h6": true, "pre": true, "code": true, "blockquote": true,
	"ul": true, "ol": true, "li": true, "em": true, "strong": true, "a": true, "img": true, "br": true, "hr": true}
var void = map[string]bool{"img": true, "br": true, "hr": true}

var decRE = regexp.MustCompile(`^#[0-9]+;`)
var hexRE = regexp.MustCompile(`^#[xX][0-9a-fA-F]+;`)
var nameRE = regexp.MustCompile(`^[A-Za-z][A-Za-z0-9]*;`)

// checkAmp: every '&' begins a well-formed character reference.
func checkAmp(s, what string) error {
	for i := 0; i < len(s); i++ {
		if s[i] != '&' {
			continue
		}
		rest := s[i+1:]
		switch {
		case decRE.MatchString(rest), hexRE.MatchString(rest):
		case nameRE.MatchString(rest) && entities.Names[nameRE.FindString(rest)]:
		default:
			end := i + 12
			if end > len(s) {
				end = len(s)
			}
			return fmt.Errorf("%s: '&' at %d does not begin a well-formed character reference: %q", what, i, s[i:end])
		}
	}
	return nil
}

func strict(out string, wantStarts map[string]int) error {
	toks, err := htmlnorm.Tokenize(out, nil)
	if err != nil {
		return fmt.Errorf("output is not in the renderer's language: %v", err)
	}
	var stack []string
	gotStarts := map[string]int{}
	for _, t := range toks {
		switch t.Kind {
		case htmlnorm.Text:
			if err := checkAmp(t.Text, "text"); err != nil {
				return err
			}
		case htmlnorm.Start:
			if !elems[t.Name] {
				return fmt.Errorf("element %q is not in the renderer's fixed set", t.Name)
			}
			key := t.Name
			seen := map[string]bool{}
			for _, a := range t.Attrs {
				ok := false
				for _, al := range allowedAttrs[t.Name] {
					if al == a.Name {
						ok = true
					}
				}
				if !ok || seen[a.Name] {
					return fmt.Errorf("attribute %q on <%s> (not allowed or repeated)", a.Name, t.Name)
				}
				seen[a.Name] = true
				key += " " + a.Name
				if err := checkAmp(a.Val, "attribute "+a.Name); err != nil {
					return err
				}
				if strings.ContainsAny(a.Val, "<") {
					return fmt.Errorf("attribute %s of <%s> contains an unescaped '<': %q", a.Name, t.Name, a.Val)
				}
			}
			gotStarts[key]++
			if !void[t.Name] {
				stack = append(stack, t.Name)
			}
		case htmlnorm.End:
			if void[t.Name] {
				return fmt.Errorf("void element %q is closed", t.Name)
			}
			if len(stack) == 0 || stack[len(stack)-1] != t.Name {
				return fmt.Errorf("end tag </%s> does not match the open elements %v", t.Name, stack)
			}
			stack = stack[:len(stack)-1]
		}
	}
	if len(stack) != 0 {
		return fmt.Errorf("elements left open: %v", stack)
	}
	// taint census: exactly the start tags (with their attribute names) that the tree predicts
	if a, b := census(gotStarts), census(wantStarts); a != b {
		return fmt.Errorf("start tags in the output %s differ from those the tree predicts %s", a, b)
	}
	// cross-check with the WHATWG tokenizer
	z := xhtml.NewTokenizer(strings.NewReader(out))
	i := 0
	next := func() *htmlnorm.Token {
		for i < len(toks) {
			t := &toks[i]
			i++
			if t.Kind != htmlnorm.Text {
				return t
			}
		}
		return nil
	}
	for {
		tt := z.Next()
		if tt == xhtml.ErrorToken {
			break
		}
		switch tt {
		case xhtml.StartTagToken, xhtml.SelfClosingTagToken, xhtml.EndTagToken:
			tok := z.Token()
			w := next()
			if w == nil {
				return fmt.Errorf("the WHATWG tokenizer sees an extra tag %s", tok.String())
			}
			if (tt == xhtml.EndTagToken) != (w.Kind == htmlnorm.End) || tok.Data != w.Name || len(tok.Attr) != len(w.Attrs) {
				return fmt.Errorf("the WHATWG tokenizer sees %s where the strict tokenizer sees <%s> with %d attributes", tok.String(), w.Name, len(w.Attrs))
			}
			for k, a := range tok.Attr {
				if a.Key != w.Attrs[k].Name {
					return fmt.Errorf("the WHATWG tokenizer sees attribute %q where the strict tokenizer sees %q", a.Key, w.Attrs[k].Name)
				}
			}
		case xhtml.CommentToken, xhtml.DoctypeToken:
			return fmt.Errorf("the WHATWG tokenizer sees a comment or doctype in safe-mode output: %q", z.Raw())
		}
	}
	if w := next(); w != nil {
		return fmt.Errorf("the WHATWG tokenizer missed tag <%s> at %d", w.Name, w.Pos)
	}
	return nil
}

func census(m map[string]int) string {
	keys := make([]string, 0, len(m))
	for k := range m {
		keys = append(keys, k)
	}
	sort.Strings(keys)
	var sb strings.Builder
	sb.WriteString("{")
	for _, k := range keys {
		fmt.Fprintf(&sb, "<%s>x%d ", k, m[k])
	}
	sb.WriteString("}")
	return sb.String()
}

// parseIncrementally uses the streaming entry point the way an incremental
// consumer does: every block is rewritten as soon as it is delivered (with the
// references seen so far), all blocks are kept, and rendering happens after the
// whole input has been read.
func parseIncrementally(in []byte) ([]*cm.RootBlock, cm.ReferenceMap, error) {
	p := cm.NewBlockParser(bytes.NewReader(in))
	refs := make(cm.ReferenceMap)
	var blocks []*cm.RootBlock
	for {
		b, err := p.NextBlock()
		if err == io.EOF {
			return blocks, refs, nil
		}
		if err != nil {
			return nil, nil, err
		}
		refs.Extract(b.Source, b.AsNode())
		(&cm.InlineParser{ReferenceMatcher: refs}).Rewrite(b)
		blocks = append(blocks, b)
	}
}

func prop(c harness.Case) harness.Result {
	var res harness.Result
	var blocks []*cm.RootBlock
	var refs cm.ReferenceMap
	if c.I["entry"] == 1 {
		var err error
		blocks, refs, err = parseIncrementally(append([]byte(nil), c.In...))
		if err != nil {
			res.Err = fmt.Errorf("streaming parse: %v", err)
			return res
		}
		res.Labels = append(res.Labels, "streamed_rewritten_incrementally")
	} else {
		blocks, refs = cm.Parse(append([]byte(nil), c.In...))
	}
	hasRaw := false
	for _, b := range blocks {
		s := tree.Summarize(b)
		if s.Blocks[cm.HTMLBlockKind]+s.Inlines[cm.HTMLTagKind]+s.Inlines[cm.RawHTMLKind] > 0 {
			hasRaw = true
		}
	}
	reach := false
	type cfg struct {
		soft   cm.SoftBreakBehavior
		ignore bool
	}
	cfgs := []cfg{{cm.SoftBreakPreserve, true}, {cm.SoftBreakSpace, true}, {cm.SoftBreakHarden, true}}
	if !hasRaw {
		cfgs = append(cfgs, cfg{cm.SoftBreakPreserve, false}, cfg{cm.SoftBreakHarden, false})
		res.Labels = append(res.Labels, "no_raw_html_nodes")
	} else {
		res.Labels = append(res.Labels, "has_raw_html_nodes")
	}
	// the renderer's reference map is the caller's: the document's own, none
	// at all, or one that lacks the document's labels (a map from another
	// document); the output is markup the renderer chose in each case
	maps := []cm.ReferenceMap{refs}
	if c.I["foreignmap"] == 1 {
		maps = []cm.ReferenceMap{nil, {"zz-not-in-the-document": cm.LinkDefinition{Destination: "/f\"<>", Title: "t\"<&", TitlePresent: true}}}
		res.Labels = append(res.Labels, "rendered_with_foreign_reference_map")
	}
	// every other case uses one renderer value for all its configurations, and
	// that value has rendered the document with raw HTML passed through before
	// (a caller may keep a renderer and change its fields; what it writes
	// depends on the fields at the call)
	var kept *cm.HTMLRenderer
	if len(c.In)%2 == 0 {
		kept = &cm.HTMLRenderer{ReferenceMap: refs}
		var sink bytes.Buffer
		kept.Render(&sink, blocks)
		res.Labels = append(res.Labels, "one_renderer_value_reconfigured")
	}
	for _, cf0 := range cfgs {
		for _, rmap := range maps {
			cf, refs := cf0, rmap
			r := &cm.HTMLRenderer{}
			if kept != nil {
				r = kept
			}
			r.ReferenceMap, r.SoftBreakBehavior, r.IgnoreRaw = refs, cf.soft, cf.ignore
			total := map[string]int{}
			for bi, b := range blocks {
				out := string(r.AppendBlock(nil, b))
				if strings.ContainsAny(out, "<>&\"'") {
					reach = true
				}
				want := map[string]int{}
				for _, t := range refrender.Block(refrender.Config{Soft: cf.soft, IgnoreRaw: cf.ignore}, refs, b.Source, &b.Block, false) {
					if t.Kind == refrender.TStart {
						key := t.Name
						for _, a := range t.Attrs {
							key += " " + a.Name
						}
						want[key]++
						total[key]++
					}
				}
				if err := strict(out, want); err != nil {
					res.Err = fmt.Errorf("soft=%v ignoreRaw=%v root block %d: %v\n output: %q", cf.soft, cf.ignore, bi, err, out)
					return res
				}
			}
			// the whole document through Render, twice on the same renderer value
			// (what a caller who keeps a renderer does): the same grammar, and the
			// census of all blocks together
			for pass := 0; pass < 2; pass++ {
				var buf bytes.Buffer
				if pass == 1 {
					// a writer with spare capacity (a buffer grown ahead): what the
					// renderer writes does not depend on the writer's state
					buf.Grow(32 << 10)
				}
				if err := r.Render(&buf, blocks); err != nil {
					res.Err = fmt.Errorf("soft=%v ignoreRaw=%v Render: %v", cf.soft, cf.ignore, err)
					return res
				}
				if err := strict(buf.String(), total); err != nil {
					res.Err = fmt.Errorf("soft=%v ignoreRaw=%v Render of the whole document (pass %d): %v\n output: %q", cf.soft, cf.ignore, pass, err, buf.String())
					return res
				}
			}
		}
	}
	res.Nontrivial = reach && strings.ContainsAny(string(c.In), "<>&\"'")
	return res
}

const rule = "(three cases in four through Parse, one through the streaming parser with incremental rewriting) G1/G2/G3 inputs and sink templates (hostile payload placed where text reaches an attribute or element: text, code, info string, destinations, titles, image descriptions, autolinks, list starts) x IgnoreRaw=true with 3 soft-break behaviours, plus IgnoreRaw=false when the tree has no raw-HTML node; oracle = strict output grammar (O2), fixed element/attribute vocabulary, nesting, well-formed character references against the WHATWG name table, start-tag census equal to the one the tree predicts, agreement with x/net/html's tokenizer; non-trivial = input contains one of < > & \" ' and the output contains markup or escapes"

func plan() harness.Plan {
	return harness.Plan{Prop: "C07", Suppress: findings.Suppressor("C07"), Checks: []harness.Check{
		{Name: "safe_output", Quick: 50000, Thorough: 700000, Gen: func(t *rapid.T) harness.Case {
			c := harness.Case{In: gen.DocOrSink().Draw(t, "in")}
			if rapid.IntRange(0, 3).Draw(t, "entry") == 0 {
				c.SetI("entry", 1)
			}
			if rapid.IntRange(0, 4).Draw(t, "foreignmap") == 0 {
				c.SetI("foreignmap", 1)
			}
			return c
		}, Prop: prop, Rule: rule},
		{Name: "streamed_long", Quick: 60, Thorough: 800, Gen: func(t *rapid.T) harness.Case {
			c := harness.Case{In: gen.LongDoc(20000, 80000).Draw(t, "in")}
			c.SetI("entry", 1)
			return c
		}, Prop: prop, Rule: "documents of 20-80 KB with hundreds of root blocks, parsed through NewBlockParser with every block rewritten as soon as it is delivered and rendered after the whole input was read: " + rule},
		{Name: "sinks", Quick: 50000, Thorough: 700000, Gen: func(t *rapid.T) harness.Case {
			c := harness.Case{In: gen.Sink().Draw(t, "in")}
			if rapid.IntRange(0, 4).Draw(t, "foreignmap") == 0 {
				c.SetI("foreignmap", 1)
			}
			return c
		}, Prop: prop, Rule: "sink templates only: " + rule},
	}}
}

func TestProperty(t *testing.T) {
	harness.Run(t, plan())
}

// FuzzProperty is the native coverage-guided fuzz entry (thorough tier).
func FuzzProperty(f *testing.F) {
	harness.FuzzTarget(f, plan(), "safe_output", gen.SeedCorpus())
}
