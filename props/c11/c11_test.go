// Package c11 decides property C11: emphasis resolution follows the spec's
// delimiter-run algorithm. Oracle: internal/refemph (the appendix procedure
// without its search-bound optimisation).
package c11

import (
	"bytes"
	"fmt"
	"hash/fnv"
	"html"
	"regexp"
	"strings"
	"testing"

	"pgregory.net/rapid"
	"verif/internal/findings"
	"verif/internal/harness"
	"verif/internal/refemph"
	cm "zombiezen.com/go/commonmark"
)

func TestMain(m *testing.M) { harness.Main(m) }

func render(s string) string {
	blocks, refs := cm.Parse([]byte(s))
	var buf bytes.Buffer
	cm.RenderHTML(&buf, blocks, refs)
	// newlines next to the block tags are insignificant inter-block white space
	return blockNL.ReplaceAllString(html.UnescapeString(buf.String()), "$1")
}

var blockNL = regexp.MustCompile(`\n*(</?(?:p|h1)>)\n*`)

var thematic = regexp.MustCompile(`^([-_*])( *[-_*]){2,} *$`)

// blockSafe: the string is a one-paragraph document (no leading/trailing
// space, not a thematic break, not a list item).
func blockSafe(s string) bool {
	if s == "" || s[0] == ' ' || s[len(s)-1] == ' ' {
		return false
	}
	if thematic.MatchString(s) {
		ch := s[0]
		same := true
		for i := 0; i < len(s); i++ {
			if (s[i] == '*' || s[i] == '_' || s[i] == '-') && s[i] != ch {
				same = false
			}
		}
		if same {
			return false
		}
	}
	if s == "*" || strings.HasPrefix(s, "* ") {
		return false
	}
	return true
}

func nontrivial(s string) bool {
	runs, both, long := 0, false, false
	for i := 0; i < len(s); {
		if s[i] != '*' && s[i] != '_' {
			i++
			continue
		}
		j := i
		for j < len(s) && s[j] == s[i] {
			j++
		}
		runs++
		if j-i >= 3 {
			long = true
		}
		// a run between two non-space characters can both open and close (for *)
		if i > 0 && j < len(s) && s[i-1] != ' ' && s[j] != ' ' {
			both = true
		}
		i = j
	}
	return (runs >= 2 && both) || long
}

// check compares the library with the reference in both contexts.
func check(s string) error {
	if blockSafe(s) {
		want := "<p>" + refemph.RefEmphasis(s) + "</p>"
		if got := render(s); got != want {
			return fmt.Errorf("paragraph %q: library %q, spec algorithm %q", s, got, want)
		}
	}
	// ATX context: block structure cannot interfere; the heading strips
	// leading and trailing spaces of its content
	content := strings.Trim(s, " ")
	want := "<h1>" + refemph.RefEmphasis(content) + "</h1>"
	if got := render("# " + s); got != want {
		return fmt.Errorf("heading content %q: library %q, spec algorithm %q", s, got, want)
	}
	return nil
}

func propOne(c harness.Case) harness.Result {
	s := string(c.In)
	return harness.Result{Nontrivial: nontrivial(s), Err: check(s)}
}

var base = []string{"*", "_", "a", " ", "."}
var extended = []string{"*", "_", "a", " ", ".", "é", " ", "“", "\f", "€", "\U00010100"}

func enumerate(t *testing.T, plan harness.Plan, name string, alpha []string, maxLen int) {
	cfg := harness.Cfg()
	shards := 1
	if cfg.Tier == "thorough" {
		shards = 16
	}
	k := len(alpha)
	idx := make([]int, maxLen)
	var sb strings.Builder
	n := 0
	for length := 1; length <= maxLen; length++ {
		for i := range idx[:length] {
			idx[i] = 0
		}
		for {
			n++
			if n%shards == cfg.Shard%shards {
				sb.Reset()
				for _, d := range idx[:length] {
					sb.WriteString(alpha[d])
				}
				s := sb.String()
				h := fnv.New64a()
				h.Write([]byte(s))
				err := check(s)
				harness.CountRaw(name, h.Sum64(), nontrivial(s), func() string { return fmt.Sprintf("%q", s) })
				if err != nil {
					if harness.Fail(t, plan, name, harness.Case{In: []byte(s)}, err) {
						return
					}
				}
			}
			// next string of this length
			p := length - 1
			for p >= 0 {
				idx[p]++
				if idx[p] < k {
					break
				}
				idx[p] = 0
				p--
			}
			if p < 0 {
				break
			}
		}
	}
	harness.SetExhaustive(name, fmt.Sprintf("every string of length 1..%d over the %d-symbol alphabet %q (split over %d shard(s))", maxLen, k, alpha, shards))
}

// codePoints: every non-ASCII code point as the neighbour of a delimiter run.
// Flanking depends on whether the neighbour is Unicode white space, Unicode
// punctuation or neither; five templates tell the three classes apart on
// either side of a run. Quick: the whole Basic Multilingual Plane and every
// 17th code point above it; thorough: every code point.
func codePoints(t *testing.T, plan harness.Plan) {
	const name = "code_points"
	cfg := harness.Cfg()
	shards, stride := 1, rune(17)
	if cfg.Tier == "thorough" {
		shards, stride = 16, 1
	}
	n := 0
	for r := rune(0x80); r <= 0x10FFFF; r++ {
		if r >= 0xD800 && r <= 0xDFFF {
			continue
		}
		if r > 0xFFFF && r%stride != 0 {
			continue
		}
		n++
		if n%shards != cfg.Shard%shards {
			continue
		}
		c := string(r)
		for ti, s := range []string{"a" + c + "_b_", "_b_" + c + "a", "*" + c + "b*", "*b" + c + "*", "a*" + c + "b* c*", "*a *b" + c + "*c"} {
			err := check(s)
			harness.CountRaw(name, uint64(r)<<3|uint64(ti), true, func() string { return fmt.Sprintf("%q (U+%04X)", s, r) })
			if err != nil && harness.Fail(t, plan, name, harness.Case{In: []byte(s)}, err) {
				return
			}
		}
	}
	if stride == 1 {
		harness.SetExhaustive(name, "six templates x every code point U+0080..U+10FFFF except surrogates")
	} else {
		harness.SetExhaustive(name, "six templates x every code point U+0080..U+FFFF except surrogates and every 17th code point U+10000..U+10FFFF")
	}
}

// manyRuns: paragraphs with hundreds to thousands of delimiter runs (the
// delimiter stack is only emptied at the end of the block), so that anything
// bounded by the number of runs, not by their length, is crossed.
func manyRuns(t *testing.T, plan harness.Plan) {
	const name = "many_runs"
	if harness.Cfg().Shard != 0 {
		return
	}
	counts := []int{100, 520, 1030, 2100}
	if harness.Cfg().Tier == "thorough" {
		counts = []int{100, 255, 256, 257, 511, 512, 513, 1023, 1024, 1025, 2047, 2048, 2049, 4100}
	}
	for _, n := range counts {
		for ti, s := range []string{
			strings.TrimSpace(strings.Repeat("*a* _b_ **c** ", n/3)),
			"*x " + strings.Repeat("_y ", n) + "z*",
			strings.Repeat("*a ", n) + "b" + strings.Repeat(" c*", n/2),
			strings.Repeat("a* ", n) + "*b*",
		} {
			err := check(s)
			harness.CountRaw(name, uint64(n)<<3|uint64(ti), true, func() string { return fmt.Sprintf("template %d with %d runs", ti, n) })
			if err != nil && harness.Fail(t, plan, name, harness.Case{In: []byte(s)}, err) {
				return
			}
		}
	}
	harness.SetExhaustive(name, fmt.Sprintf("four templates x %v delimiter runs in one paragraph", counts))
}

// longRuns: one run of every length up to 700 in a few templates.
func longRuns(t *testing.T, plan harness.Plan) {
	if harness.Cfg().Shard != 0 {
		return
	}
	const name = "long_runs"
	max := 300
	if harness.Cfg().Tier == "thorough" {
		max = 700
	}
	for _, d := range []string{"*", "_"} {
		for n := 1; n <= max; n++ {
			run := strings.Repeat(d, n)
			for _, s := range []string{
				"a" + run + "b" + d + d,
				d + d + "a" + run + "b",
				"a " + run + "b c" + d,
				run + "a" + run,
				run + "a" + d,
				d + "a" + run,
				"a" + run + " " + d + "b" + d + d + d,
			} {
				h := fnv.New64a()
				h.Write([]byte(s))
				err := check(s)
				harness.CountRaw(name, h.Sum64(), true, func() string { return fmt.Sprintf("template with a run of %d %q", n, d) })
				if err != nil && harness.Fail(t, plan, name, harness.Case{In: []byte(s)}, err) {
					return
				}
			}
		}
	}
	harness.SetExhaustive(name, fmt.Sprintf("seven templates x both delimiters x every run length 1..%d", max))
}

// ---- a construct spelled over two lines before the delimiter runs does not
// change how they resolve: the same paragraph with the construct spelled on
// one line (a spelling the spec gives the same meaning) renders identically.
var spellings = []struct{ multi, single string }{
	{"[l](\n/u)", "[l](/u)"},
	{"[l](/u\n)", "[l](/u)"},
	{"[l](/u\n'ti')", "[l](/u 'ti')"},
	{"![i](\n/u)", "![i](/u)"},
	{"`x\ny`", "`x y`"},
	{"``x\n`y``", "``x `y``"},
	{"[l][r\ns]", "[l][r s]"},
	{"[r\ns]", "[r s]"},
}

func propAfterMultiLine(c harness.Case) harness.Result {
	s := string(c.In)
	sp := spellings[c.I["spelling"]%len(spellings)]
	pre := c.S["pre"]
	def := "\n\n[r s]: /d\n"
	build := func(construct string) string {
		doc := pre + construct + s + def
		switch c.I["container"] {
		case 1:
			doc = "> " + strings.ReplaceAll(doc, "\n", "\n> ")
		case 2:
			doc = "- " + strings.ReplaceAll(doc, "\n", "\n  ")
		}
		return doc
	}
	// the only line endings inside the paragraph are the construct's own
	// (a soft break in a label that is also the link text, for instance)
	a, b := strings.ReplaceAll(render(build(sp.multi)), "\n", " "), strings.ReplaceAll(render(build(sp.single)), "\n", " ")
	res := harness.Result{Nontrivial: nontrivial(s)}
	if a != b {
		res.Err = fmt.Errorf("the delimiter runs of %q resolve differently after %q than after the one-line spelling %q:\n two lines: %q\n one line:  %q", s, sp.multi, sp.single, a, b)
	}
	return res
}

func genAfterMultiLine(t *rapid.T) harness.Case {
	n := rapid.IntRange(1, 14).Draw(t, "len")
	var sb strings.Builder
	for i := 0; i < n; i++ {
		k := rapid.IntRange(0, len(extended)+3).Draw(t, "sym")
		switch {
		case k < len(extended):
			if extended[k] == "\f" {
				sb.WriteString("a")
			} else {
				sb.WriteString(extended[k])
			}
		case k == len(extended) || k == len(extended)+1:
			sb.WriteString("*")
		default:
			sb.WriteString("_")
		}
	}
	c := harness.Case{In: []byte(strings.TrimRight(sb.String(), " "))}
	c.SetI("spelling", rapid.IntRange(0, len(spellings)-1).Draw(t, "spelling"))
	c.SetI("container", rapid.IntRange(0, 2).Draw(t, "container"))
	c.SetS("pre", []string{"", "x ", "*a ", "_b", "w*"}[rapid.IntRange(0, 4).Draw(t, "pre")])
	return c
}

// openers: '[' and '!' without any ']' can never form a link or image; they are
// plain punctuation for the delimiter-run rules, but the library keeps them on
// its delimiter stack until the end of the paragraph.
var openers = []string{"*", "_", "a", " ", "[", "!"}

func genRandom(t *rapid.T) harness.Case {
	n := rapid.IntRange(11, 40).Draw(t, "len")
	var sb strings.Builder
	for i := 0; i < n; i++ {
		k := rapid.IntRange(0, len(extended)+3).Draw(t, "sym")
		switch {
		case k < len(extended):
			sb.WriteString(extended[k])
		case k == len(extended) || k == len(extended)+1:
			sb.WriteString("*")
		default:
			sb.WriteString("_")
		}
	}
	return harness.Case{In: []byte(sb.String())}
}

const ruleNT = "non-trivial = the string has >= 2 delimiter runs one of which sits between two non-space characters (can open and close), or a run of length >= 3"

func TestProperty(t *testing.T) {
	plan := harness.Plan{Prop: "C11", Suppress: findings.Suppressor("C11"), Checks: []harness.Check{
		{Name: "random", Quick: 100000, Thorough: 1000000, Gen: genRandom, Prop: propOne,
			Rule: "random strings of length 11-40 over {* _ a SP . é NBSP “ FF € U+10100} (delimiters weighted), as a paragraph when block-safe and as ATX heading content; oracle = spec process-emphasis without search bounds; " + ruleNT},
		{Name: "after_multi_line", Quick: 60000, Thorough: 600000, Gen: genAfterMultiLine, Prop: propAfterMultiLine,
			Rule: "metamorphic: a string of 1-14 symbols over the extended alphabet placed directly after an inline link, image, code span or reference whose source spans two lines (at top level, in a quote, in a list item; after an optional opener), compared with the same paragraph in which that construct is spelled on one line; " + ruleNT},
		{Name: "exhaustive_base", Prop: propOne, Rule: "exhaustive enumeration over {* _ a SP .}; each string as a one-paragraph document when block-safe (no edge spaces, not a thematic break, not a list item) and always as ATX heading content; " + ruleNT},
		{Name: "exhaustive_openers", Prop: propOne, Rule: "exhaustive enumeration over {* _ a SP [ !}: bracket openers that are never closed stay on the delimiter stack to the end of the paragraph and are plain punctuation for emphasis; " + ruleNT},
		{Name: "exhaustive_extended", Prop: propOne, Rule: "exhaustive enumeration over {* _ a SP . é NBSP “ FF € U+10100}; " + ruleNT},
	}}
	plan.Checks = append(plan.Checks, harness.Check{Name: "long_runs", Prop: propOne,
		Rule: "templates with one delimiter run of every length 1..700 (a{N}b**, **a{N}b, {N}a{M} ...) for both delimiters: run lengths far beyond what enumeration reaches, around 255/256 and 65535-style boundaries of narrow counters; " + ruleNT})
	plan.Checks = append(plan.Checks, harness.Check{Name: "many_runs", Prop: propOne,
		Rule: "paragraphs with 100 to 2100 delimiter runs (thorough: fourteen counts up to 4100, around 256, 512, 1024, 2048) in four templates (matched pairs, an outer pair around many unmatched runs, many openers with half as many closers, many closers then a pair); " + ruleNT})
	plan.Checks = append(plan.Checks, harness.Check{Name: "code_points", Prop: propOne,
		Rule: "every non-ASCII code point (quick: the whole BMP and every 17th code point above; thorough: all) directly before and after delimiter runs in six templates that tell Unicode white space, Unicode punctuation and other characters apart; " + ruleNT})
	plan.After = func(t *testing.T) {
		longRuns(t, plan)
		if t.Failed() {
			return
		}
		codePoints(t, plan)
		if t.Failed() {
			return
		}
		manyRuns(t, plan)
		if t.Failed() {
			return
		}
		bl, el := 8, 5
		if harness.Cfg().Tier == "thorough" {
			bl, el = 10, 7
		}
		enumerate(t, plan, "exhaustive_base", base, bl)
		if !t.Failed() {
			enumerate(t, plan, "exhaustive_extended", extended, el)
		}
		if !t.Failed() {
			enumerate(t, plan, "exhaustive_openers", openers, el+2)
		}
	}
	harness.Run(t, plan)
}
