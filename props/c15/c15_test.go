//go:build verif

// Package c15 decides property C15: the line-level recognizers and byte
// classifiers match the spec's regular definitions, URI normalisation emits
// only URI characters and well-formed escapes and is idempotent, and e-mail
// recognition equals the spec's regular expression.
package c15

import (
	"fmt"
	"hash/fnv"
	"strings"
	"testing"
	"unicode"

	"pgregory.net/rapid"
	"verif/internal/findings"
	"verif/internal/harness"
	"verif/internal/refrender"
	"verif/internal/specre"
	cm "zombiezen.com/go/commonmark"
)

func TestMain(m *testing.M) { harness.Main(m) }

func first(b []byte) *cm.RootBlock {
	blocks, _ := cm.Parse(b)
	if len(blocks) == 0 {
		return nil
	}
	return blocks[0]
}

// ---- the five recognizers: direct (through the verif hook) and end to end

func checkThematic(line string) (bool, error) {
	want := specre.ThematicBreak(line)
	got := cm.VerifParseThematicBreak([]byte(line))
	if got != want {
		return want >= 0, fmt.Errorf("thematic break %q: recognizer says end=%d, the spec's definition %d", line, got, want)
	}
	for _, ind := range []string{"", " ", "   ", "    "} {
		b := first([]byte(ind + line))
		is := b != nil && b.Kind() == cm.ThematicBreakKind
		exp := want >= 0 && len(ind) < 4
		if is != exp {
			return want >= 0, fmt.Errorf("document %q: thematic break root block = %v, the spec's definition says %v", ind+line, is, exp)
		}
	}
	return want >= 0, nil
}

func checkATX(line string) (bool, error) {
	wl, wc, _ := specre.ATX(line)
	gl, sp := cm.VerifParseATXHeading([]byte(line))
	if gl != wl {
		return wl > 0, fmt.Errorf("ATX heading %q: recognizer says level %d, the spec's definition %d", line, gl, wl)
	}
	if wl > 0 {
		if !sp.IsValid() || sp.End > len(line) {
			return true, fmt.Errorf("ATX heading %q: invalid content span %v", line, sp)
		}
		if gc := line[sp.Start:sp.End]; gc != wc {
			return true, fmt.Errorf("ATX heading %q: recognizer says content %q, the spec's definition %q", line, gc, wc)
		}
	}
	for _, ind := range []string{"", "  ", "   "} {
		b := first([]byte(ind + line))
		is := b != nil && b.Kind() == cm.ATXHeadingKind
		if is != (wl > 0) || (is && b.HeadingLevel() != wl) {
			lv := 0
			if b != nil {
				lv = b.HeadingLevel()
			}
			return wl > 0, fmt.Errorf("document %q: ATX heading root = %v level %d, the spec's definition says level %d", ind+line, is, lv, wl)
		}
	}
	return wl > 0, nil
}

func checkSetext(line string) (bool, error) {
	want := specre.SetextUnderline(line)
	if got := cm.VerifParseSetextHeadingUnderline([]byte(line)); got != want {
		return want > 0, fmt.Errorf("setext underline %q: recognizer says level %d, the spec's definition %d", line, got, want)
	}
	for _, ind := range []string{"", "   ", "    "} {
		b := first([]byte("a\n" + ind + line))
		is := b != nil && b.Kind() == cm.SetextHeadingKind
		exp := want > 0 && len(ind) < 4
		if is != exp || (is && b.HeadingLevel() != want) {
			return want > 0, fmt.Errorf("document %q: setext heading root = %v, the spec's definition says %v (level %d)", "a\n"+ind+line, is, exp, want)
		}
	}
	return want > 0, nil
}

func checkFence(line string) (bool, error) {
	wc, wn, wi := specre.Fence(line)
	gc, gn, gi := cm.VerifParseCodeFence([]byte(line))
	if gn != wn || (wn > 0 && gc != wc) {
		return wn > 0, fmt.Errorf("code fence %q: recognizer says %q x %d, the spec's definition %q x %d", line, gc, gn, wc, wn)
	}
	if wn > 0 {
		info := ""
		if gi.IsValid() && gi.End <= len(line) {
			info = line[gi.Start:gi.End]
		}
		if info != wi {
			return true, fmt.Errorf("code fence %q: recognizer says info string %q, the spec's definition %q", line, info, wi)
		}
	}
	for _, ind := range []string{"", "   ", "    "} {
		doc := ind + line
		if !strings.HasSuffix(doc, "\n") && !strings.HasSuffix(doc, "\r") {
			doc += "\n"
		}
		doc += "x\n"
		b := first([]byte(doc))
		is := b != nil && b.Kind() == cm.FencedCodeBlockKind
		exp := wn > 0 && len(ind) < 4
		if is != exp {
			return wn > 0, fmt.Errorf("document %q: fenced code root = %v, the spec's definition says %v", doc, is, exp)
		}
		if is {
			info := ""
			if n := b.InfoString(); n != nil {
				info = string(b.Source[n.Span().Start:n.Span().End])
			}
			if info != wi {
				return true, fmt.Errorf("document %q: info string %q, the spec's definition says %q", doc, info, wi)
			}
		}
	}
	if wn > 0 && !strings.ContainsAny(strings.TrimRight(line, "\r\n"), "\r\n") {
		// the same line as a closing fence: it closes a block opened by three of
		// its characters exactly when it has no info string
		l := line
		if !strings.HasSuffix(l, "\n") && !strings.HasSuffix(l, "\r") {
			l += "\n"
		}
		doc := strings.Repeat(string(wc), 3) + "\nx\n" + l + "after\n"
		roots, _ := cm.Parse([]byte(doc))
		closed := len(roots) == 2 && roots[0].Kind() == cm.FencedCodeBlockKind && roots[1].Kind() == cm.ParagraphKind
		if closed != (wi == "") {
			return true, fmt.Errorf("document %q: the fence line closes the block = %v, the spec's definition says %v (a closing fence has no info string)", doc, closed, wi == "")
		}
	}
	return wn > 0, nil
}

func checkList(line string) (bool, error) {
	wd, wn, we := specre.ListMarker(line)
	gd, gn, ge := cm.VerifParseListMarker([]byte(line))
	if ge != we || (we >= 0 && (gd != wd || gn != wn)) {
		return we >= 0, fmt.Errorf("list marker %q: recognizer says delim %q n=%d end=%d, the spec's definition delim %q n=%d end=%d", line, gd, gn, ge, wd, wn, we)
	}
	if specre.ThematicBreak(line) < 0 {
		for _, ind := range []string{"", "  "} {
			b := first([]byte(ind + line))
			is := b != nil && b.Kind() == cm.ListKind
			if is != (we >= 0) {
				return we >= 0, fmt.Errorf("document %q: list root = %v, the spec's definition says %v", ind+line, is, we >= 0)
			}
			if is {
				ordered := wd == '.' || wd == ')'
				item := b.Child(0).Block()
				if b.IsOrderedList() != ordered || (ordered && item.ListItemNumber(b.Source) != wn) {
					return true, fmt.Errorf("document %q: ordered=%v number=%d, the spec's definition says ordered=%v number=%d", ind+line, b.IsOrderedList(), item.ListItemNumber(b.Source), ordered, wn)
				}
			}
		}
	}
	return we >= 0, nil
}

type rule struct {
	name  string
	alpha []string
	quick int
	thor  int
	check func(string) (bool, error)
}

var rules = []rule{
	// each alphabet holds every character the rule distinguishes, one ordinary
	// character, and white space the rule must NOT treat as a space (form feed;
	// for fences also no-break space, which Unicode-aware trimming would strip)
	{"thematic", []string{"-", "_", "*", " ", "\t", "a", "\f"}, 6, 8, checkThematic},
	{"atx", []string{"#", " ", "\t", "a", "\\", "\f"}, 7, 9, checkATX},
	{"setext", []string{"=", "-", " ", "\t", "a", "\f"}, 7, 9, checkSetext},
	{"fence", []string{"`", "~", " ", "a", "\f", "\u00a0", "\t"}, 6, 8, checkFence},
	{"list", []string{"-", "+", "*", "0", "1", "9", ".", ")", " ", "\t", "a", "\f"}, 5, 6, checkList},
}

var endings = []string{"", "\n"}

// enumerate runs check on every string up to maxLen over alpha whose first
// symbol is not white space (the recognizers' callers strip indentation), with
// and without a line ending.
func enumerate(t *testing.T, plan harness.Plan, r rule, maxLen int) {
	cfg := harness.Cfg()
	shards := 1
	if cfg.Tier == "thorough" {
		shards = 16
	}
	k := len(r.alpha)
	idx := make([]int, maxLen)
	n := 0
	name := "enum_" + r.name
	for length := 1; length <= maxLen; length++ {
		for i := range idx[:length] {
			idx[i] = 0
		}
		for {
			n++
			if n%shards == cfg.Shard%shards && r.alpha[idx[0]] != " " && r.alpha[idx[0]] != "\t" {
				var sb strings.Builder
				for _, d := range idx[:length] {
					sb.WriteString(r.alpha[d])
				}
				for _, e := range endings {
					s := sb.String() + e
					accepted, err := r.check(s)
					h := fnv.New64a()
					h.Write([]byte(s))
					harness.CountRaw(name, h.Sum64(), accepted, func() string { return fmt.Sprintf("%q", s) })
					if err != nil && harness.Fail(t, plan, name, harness.Case{In: []byte(s)}, err) {
						return
					}
				}
			}
			p := length - 1
			for p >= 0 {
				idx[p]++
				if idx[p] < k {
					break
				}
				idx[p] = 0
				p--
			}
			if p < 0 {
				break
			}
		}
	}
	harness.SetExhaustive(name, fmt.Sprintf("every line of 1..%d symbols over %q not starting with white space, with and without a final LF (split over %d shard(s))", maxLen, r.alpha, shards))
}

func lineProp(r rule) func(harness.Case) harness.Result {
	return func(c harness.Case) harness.Result {
		acc, err := r.check(string(c.In))
		return harness.Result{Nontrivial: acc, Err: err}
	}
}

// random longer lines for all five rules, with CR / CRLF endings and long digit runs
func genLine(t *rapid.T) harness.Case {
	toks := []string{"-", "_", "*", "#", "=", "`", "~", "+", " ", "  ", "\t", "a", "foo", "\\", "0", "1", "9", "123456789", "1234567890", ".", ")", "`x`", "###", "```", "~~~", "---", "é", "\\#", " #", "# ", "\f", "\v", "\u00a0", "\u2003", "\u3000"}
	n := rapid.IntRange(1, 30).Draw(t, "n")
	var sb strings.Builder
	for i := 0; i < n; i++ {
		sb.WriteString(toks[rapid.IntRange(0, len(toks)-1).Draw(t, "tok")])
	}
	s := strings.TrimLeft(sb.String(), " \t")
	s += []string{"", "\n", "\r\n", "\r"}[rapid.IntRange(0, 3).Draw(t, "eol")]
	return harness.Case{In: []byte(s)}
}

func propAllRules(c harness.Case) harness.Result {
	var res harness.Result
	for _, r := range rules {
		acc, err := r.check(string(c.In))
		if acc {
			res.Nontrivial = true
			res.Labels = append(res.Labels, "accepted_by_"+r.name)
		}
		if err != nil {
			res.Err = err
			return res
		}
	}
	return res
}

// ---- classifiers

func classifiers(t *testing.T, plan harness.Plan) {
	name := "classifiers"
	for i := 0; i < 256; i++ {
		c := byte(i)
		var err error
		switch {
		case cm.VerifIsASCIIPunctuation(c) != specre.IsASCIIPunctuation(c):
			err = fmt.Errorf("byte %#02x: isASCIIPunctuation = %v", c, cm.VerifIsASCIIPunctuation(c))
		case cm.VerifIsASCIIControl(c) != specre.IsASCIIControl(c):
			err = fmt.Errorf("byte %#02x: isASCIIControl = %v", c, cm.VerifIsASCIIControl(c))
		case cm.VerifIsHex(c) != specre.IsHex(c):
			err = fmt.Errorf("byte %#02x: isHex = %v", c, cm.VerifIsHex(c))
		case cm.VerifIsSpaceTabOrLineEnding(c) != specre.IsSpaceTabEOL(c):
			err = fmt.Errorf("byte %#02x: isSpaceTabOrLineEnding = %v", c, cm.VerifIsSpaceTabOrLineEnding(c))
		case cm.VerifIsASCIILetter(c) != (c >= 'a' && c <= 'z' || c >= 'A' && c <= 'Z'):
			err = fmt.Errorf("byte %#02x: isASCIILetter = %v", c, cm.VerifIsASCIILetter(c))
		case cm.VerifIsASCIIDigit(c) != (c >= '0' && c <= '9'):
			err = fmt.Errorf("byte %#02x: isASCIIDigit = %v", c, cm.VerifIsASCIIDigit(c))
		}
		harness.CountRaw(name, uint64(i), true, func() string { return fmt.Sprintf("byte %#02x", c) })
		if err != nil && harness.Fail(t, plan, name, harness.Case{In: []byte{c}}, err) {
			return
		}
	}
	for r := rune(0); r <= unicode.MaxRune; r++ {
		ws := r == ' ' || r == '\t' || r == '\n' || r == '\f' || r == '\r' || unicode.Is(unicode.Zs, r)
		var pu bool
		if r < 0x80 {
			pu = specre.IsASCIIPunctuation(byte(r))
		} else {
			pu = unicode.In(r, unicode.Pc, unicode.Pd, unicode.Pe, unicode.Pf, unicode.Pi, unicode.Po, unicode.Ps)
		}
		var err error
		if cm.VerifIsUnicodeWhitespace(r) != ws {
			err = fmt.Errorf("code point U+%04X: isUnicodeWhitespace = %v, the spec's definition says %v", r, !ws, ws)
		} else if cm.VerifIsUnicodePunctuation(r) != pu {
			err = fmt.Errorf("code point U+%04X: isUnicodePunctuation = %v, the spec's definition says %v", r, !pu, pu)
		}
		harness.CountRaw(name, 1<<32|uint64(r), ws || pu, func() string { return fmt.Sprintf("U+%04X", r) })
		if err != nil && harness.Fail(t, plan, name, harness.Case{In: []byte(string(r))}, err) {
			return
		}
	}
	harness.SetExhaustive(name, "all 256 byte values for the six byte classifiers and all 1114112 code points for the two Unicode predicates")
}

func propClassifiers(c harness.Case) harness.Result { return harness.Result{} }

// ---- URI normalisation and e-mail recognition

func checkURI(s string) error {
	n := cm.NormalizeURI(s)
	if !specre.URIOutputOK(n) {
		return fmt.Errorf("NormalizeURI(%q) = %q contains something other than URI characters and %%XX escapes", s, n)
	}
	if nn := cm.NormalizeURI(n); nn != n {
		return fmt.Errorf("NormalizeURI is not idempotent on %q: %q then %q", s, n, nn)
	}
	if want := refrender.NormURI(s); n != want {
		return fmt.Errorf("NormalizeURI(%q) = %q, the reference normaliser says %q", s, n, want)
	}
	return nil
}

func checkEmail(s string) (bool, error) {
	want := specre.EmailRE.MatchString(s)
	if got := cm.IsEmailAddress(s); got != want {
		return want, fmt.Errorf("IsEmailAddress(%q) = %v, the spec's regular expression says %v", s, got, want)
	}
	// end to end: <s> is an autolink to mailto: iff s is an address
	if !strings.ContainsAny(s, "<> \t\r\n\x00") && s != "" {
		// (behind some text, so that "<!a@b>" or "<?a@b>" cannot start an HTML block)
		blocks, refs := cm.Parse([]byte("x <" + s + ">"))
		var sb strings.Builder
		cm.RenderHTML(&sb, blocks, refs)
		has := strings.Contains(sb.String(), `href="mailto:`)
		if has != want {
			return want, fmt.Errorf("document %q: mailto autolink = %v, the spec's regular expression says %v (output %q)", "x <"+s+">", has, want, sb.String())
		}
	}
	return want, nil
}

func enumStrings(t *testing.T, plan harness.Plan, name string, alpha []string, maxLen int, f func(string) (bool, error)) {
	cfg := harness.Cfg()
	shards := 1
	if cfg.Tier == "thorough" {
		shards = 16
	}
	k := len(alpha)
	idx := make([]int, maxLen)
	n := 0
	for length := 0; length <= maxLen; length++ {
		for i := range idx[:length] {
			idx[i] = 0
		}
		for {
			n++
			if n%shards == cfg.Shard%shards {
				var sb strings.Builder
				for _, d := range idx[:length] {
					sb.WriteString(alpha[d])
				}
				s := sb.String()
				nt, err := f(s)
				h := fnv.New64a()
				h.Write([]byte(s))
				harness.CountRaw(name, h.Sum64(), nt, func() string { return fmt.Sprintf("%q", s) })
				if err != nil && harness.Fail(t, plan, name, harness.Case{In: []byte(s)}, err) {
					return
				}
			}
			p := length - 1
			for p >= 0 {
				idx[p]++
				if idx[p] < k {
					break
				}
				idx[p] = 0
				p--
			}
			if p < 0 {
				break
			}
		}
	}
	harness.SetExhaustive(name, fmt.Sprintf("every string of 0..%d symbols over %q (split over %d shard(s))", maxLen, alpha, shards))
}

// counted enumerates lines whose decision depends on a count that the short
// exhaustive alphabets cannot reach: ordered list markers of 1-12 digits with
// every number of leading zeros, ATX openers of 1-9 hashes, fences and thematic
// breaks of 1-12 characters, each with the followers the rules distinguish.
func counted(t *testing.T, plan harness.Plan) {
	const name = "counted_lines"
	n := 0
	try := func(line string) bool {
		n++
		for _, e := range []string{"", "\n", "\r\n"} {
			s := line + e
			nt := false
			for _, r := range rules {
				acc, err := r.check(s)
				nt = nt || acc
				if err != nil {
					h := fnv.New64a()
					h.Write([]byte(s))
					harness.CountRaw(name, h.Sum64(), nt, func() string { return fmt.Sprintf("%q", s) })
					return harness.Fail(t, plan, name, harness.Case{In: []byte(s)}, err)
				}
			}
			h := fnv.New64a()
			h.Write([]byte(s))
			harness.CountRaw(name, h.Sum64(), nt, func() string { return fmt.Sprintf("%q", s) })
		}
		return false
	}
	followers := []string{"", " ", " x", "\tx", "x", "  x", "     x", "\f"}
	for nd := 1; nd <= 12; nd++ {
		for zeros := 0; zeros <= nd; zeros++ {
			for _, tail := range []string{"1", "9", "8"} {
				digits := strings.Repeat("0", zeros) + strings.Repeat(tail, nd-zeros)
				for _, d := range []string{".", ")", ":", ""} {
					for _, f := range followers {
						if try(digits + d + f) {
							return
						}
					}
				}
			}
		}
	}
	for k := 1; k <= 12; k++ {
		for _, f := range followers {
			for _, u := range []string{"#", "`", "~", "-", "_", "*", "=", "- ", "* "} {
				run := strings.Repeat(u, k)
				if try(run+f) || try(run+f+run) || try(run+" a "+run+f) {
					return
				}
			}
		}
	}
	harness.SetExhaustive(name, fmt.Sprintf("%d lines x 3 line endings: 1-12 digits with every number of leading zeros x delimiter x follower; runs of 1-12 of each marker character x follower, alone, doubled and around text", n))
}

func genEmail(t *rapid.T) harness.Case {
	label := func(tag string) string {
		n := []int{1, 2, 3, 30, 61, 62, 63, 64, 65}[rapid.IntRange(0, 8).Draw(t, tag+"len")]
		var sb strings.Builder
		for i := 0; i < n; i++ {
			sb.WriteString([]string{"a", "B", "7", "-", "a", "z"}[rapid.IntRange(0, 5).Draw(t, tag+"c")])
		}
		return sb.String()
	}
	local := []string{"a", "a.b", "x!#$%&'*+/=?^_`{|}~-", "", ".", "a b", "é", "a@b"}[rapid.IntRange(0, 7).Draw(t, "local")]
	nl := rapid.IntRange(1, 3).Draw(t, "nlabels")
	var labels []string
	for i := 0; i < nl; i++ {
		labels = append(labels, label(fmt.Sprintf("l%d", i)))
	}
	s := local + "@" + strings.Join(labels, ".")
	switch rapid.IntRange(0, 9).Draw(t, "mut") {
	case 0:
		s += "."
	case 1:
		s = strings.Replace(s, "@", "@@", 1)
	case 2:
		s += "_"
	}
	return harness.Case{In: []byte(s)}
}

// genStructuredURI follows the shape of RFC 3986: scheme, authority with user
// information, a host that is a name, an IPv4 address or a bracketed IP literal
// (with a zone identifier, spelled %25 or with a bare %), port, path, query and
// fragment; then up to two tokens are inserted anywhere.
func genStructuredURI(t *rapid.T) string {
	pick := func(tag string, xs ...string) string { return xs[rapid.IntRange(0, len(xs)-1).Draw(t, tag)] }
	var sb strings.Builder
	sb.WriteString(pick("scheme", "", "http:", "ab+c.d-e:", "mailto:", "HTTP:", ":"))
	if rapid.Bool().Draw(t, "authority") {
		sb.WriteString("//")
		sb.WriteString(pick("user", "", "", "u@", "u:p@", "é@", "%41@"))
		switch rapid.IntRange(0, 3).Draw(t, "host") {
		case 0:
			sb.WriteString(pick("name", "a.b", "x-y.example", "é.com", "a_b", ""))
		case 1:
			sb.WriteString(pick("ip4", "127.0.0.1", "1.2.3", "256.1.1.1"))
		default:
			sb.WriteString("[")
			for i, n := 0, rapid.IntRange(1, 5).Draw(t, "groups"); i < n; i++ {
				sb.WriteString(pick("group", "::", ":", "fe80", "1", "0", "ABCD", ".", "1.2.3.4", "v1.x"))
			}
			if rapid.Bool().Draw(t, "zone") {
				sb.WriteString(pick("zonesep", "%25", "%", "%2", "%%"))
				sb.WriteString(pick("zoneid", "eth0", "-", "1", "~a", "en%201", "é"))
			}
			sb.WriteString(pick("close", "]", "]", "]", ""))
		}
		sb.WriteString(pick("port", "", "", ":80", ":", ":x"))
	}
	sb.WriteString(pick("path", "", "/", "/a/b", "/a b", "/é", "/%41%zz", "/a;b=c", "/(x)", "/[x]", "//"))
	sb.WriteString(pick("query", "", "", "?q=1&r=2", "?a=[1]", "?%", "?é=%C3%A9"))
	sb.WriteString(pick("fragment", "", "", "#f", "#%", "#a#b", "#[x]"))
	s := sb.String()
	toks := []string{"%", "[", "]", ":", "://", " ", "é", "%4", "\x80", "@", "//", "\ufffd", "\x00"}
	for n := rapid.IntRange(0, 2).Draw(t, "ninsert"); n > 0 && len(s) > 0; n-- {
		at := rapid.IntRange(0, len(s)).Draw(t, "insertat")
		s = s[:at] + toks[rapid.IntRange(0, len(toks)-1).Draw(t, "insert")] + s[at:]
	}
	return s
}

func genURI(t *rapid.T) harness.Case {
	if rapid.Bool().Draw(t, "structured") {
		return harness.Case{In: []byte(genStructuredURI(t))}
	}
	toks := []string{"a", "%", "%4", "%41", "%4G", "%gg", "%C3%A9", " ", "é", "/", "[", "]", "\x80", "\xff", "\ufffd", "\xef\xbf", "\U0010ffff", "?", "#", "&", "\"", "<", "\\", "%25", "%%", "猫", "\x00", "~", "^", "{", "`", "|"}
	n := rapid.IntRange(0, 12).Draw(t, "n")
	var sb strings.Builder
	for i := 0; i < n; i++ {
		sb.WriteString(toks[rapid.IntRange(0, len(toks)-1).Draw(t, "tok")])
	}
	return harness.Case{In: []byte(sb.String())}
}

func TestProperty(t *testing.T) {
	plan := harness.Plan{Prop: "C15", Suppress: findings.Suppressor("C15")}
	for _, r := range rules {
		plan.Checks = append(plan.Checks, harness.Check{Name: "enum_" + r.name, Prop: lineProp(r),
			Rule: "exhaustive enumeration of lines for the " + r.name + " rule: recognizer (through the verif export) and one-line documents through Parse (with 0-4 spaces of indentation) against the spec's regular definition; non-trivial = the line is accepted by the rule"})
	}
	plan.Checks = append(plan.Checks,
		harness.Check{Name: "random_lines", Quick: 60000, Thorough: 600000, Gen: genLine, Prop: propAllRules,
			Rule: "random lines up to 30 tokens (9/10-digit numbers, CR/CRLF endings, escapes) against all five rules; non-trivial = accepted by some rule"},
		harness.Check{Name: "counted_lines", Prop: propAllRules, Rule: "enumerated lines whose decision depends on a count beyond the reach of the short alphabets (digits with leading zeros, hash / fence / break runs of 1-12), against all five rules"},
		harness.Check{Name: "classifiers", Prop: propClassifiers, Rule: "all byte values and all code points; non-trivial = every byte, and the code points in either Unicode class"},
		harness.Check{Name: "uri_enum", Prop: func(c harness.Case) harness.Result { return harness.Result{Err: checkURI(string(c.In))} },
			Rule: "NormalizeURI on every short string over {a % 4 G g SP é / [ 0x80}: output alphabet, idempotence, equality with the reference normaliser; non-trivial = the string contains % or a byte that must be encoded"},
		harness.Check{Name: "uri_random", Quick: 40000, Thorough: 400000, Gen: genURI, Prop: func(c harness.Case) harness.Result {
			return harness.Result{Nontrivial: strings.ContainsAny(string(c.In), "% é[\x80\xff"), Err: checkURI(string(c.In))}
		}, Rule: "NormalizeURI on random token strings (malformed escapes, invalid UTF-8, NUL)"},
		harness.Check{Name: "email_enum", Prop: func(c harness.Case) harness.Result { _, err := checkEmail(string(c.In)); return harness.Result{Err: err} },
			Rule: "IsEmailAddress (and <s> autolinks through Parse) on every short string over {a 1 . - @ ! SP} against the spec's regular expression; non-trivial = the string is an address"},
		harness.Check{Name: "email_bytes", Prop: func(c harness.Case) harness.Result { _, err := checkEmail(string(c.In)); return harness.Result{Err: err} },
			Rule: "enumerated: every byte value in nine positions of an e-mail address, IsEmailAddress and the end-to-end autolink decision against the spec's regular expression"},
		harness.Check{Name: "email_random", Quick: 40000, Thorough: 400000, Gen: genEmail, Prop: func(c harness.Case) harness.Result {
			nt, err := checkEmail(string(c.In))
			return harness.Result{Nontrivial: nt, Err: err}
		}, Rule: "structured addresses with domain labels of length 1-65 and mutations"},
	)
	plan.After = func(t *testing.T) {
		thorough := harness.Cfg().Tier == "thorough"
		for _, r := range rules {
			l := r.quick
			if thorough {
				l = r.thor
			}
			enumerate(t, plan, r, l)
			if t.Failed() {
				return
			}
		}
		if harness.Cfg().Shard == 0 {
			classifiers(t, plan)
		}
		ul, el := 5, 7
		if thorough {
			ul, el = 7, 9
		}
		enumStrings(t, plan, "uri_enum", []string{"a", "%", "4", "G", "g", " ", "é", "/", "[", "\x80"}, ul, func(s string) (bool, error) {
			return strings.ContainsAny(s, "% é[\x80"), checkURI(s)
		})
		if harness.Cfg().Shard == 0 && !t.Failed() {
			counted(t, plan)
		}
		enumStrings(t, plan, "email_enum", []string{"a", "1", ".", "-", "@", "!", " "}, el, checkEmail)
		if harness.Cfg().Shard == 0 && !t.Failed() {
			// every byte value in every position class of an address
			for b := 0; b < 256; b++ {
				c := string([]byte{byte(b)})
				for ti, s := range []string{c + "@a.b", "a" + c + "@a", "a" + c + "b@a", "a@" + c, "a@a" + c, "a@a." + c, "a@a" + c + "a", "a@a-" + c, "a@" + c + "a.b"} {
					_, err := checkEmail(s)
					harness.CountRaw("email_bytes", uint64(b)<<4|uint64(ti), true, func() string { return fmt.Sprintf("%q", s) })
					if err != nil && harness.Fail(t, plan, "email_bytes", harness.Case{In: []byte(s)}, err) {
						return
					}
				}
			}
			harness.SetExhaustive("email_bytes", "every byte value 0..255 in nine positions of an address (first, middle and last of the local part, first, middle and last of a domain label, after a hyphen, after a dot)")
		}
	}
	harness.Run(t, plan)
}
