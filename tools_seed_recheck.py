#!/usr/bin/env python3
"""Re-run checks against kept seeds and update their meta.json: tools_seed_recheck.py <seed id> Cnn [Cnn...]"""
import sys, json, subprocess, os
sid = sys.argv[1]; props = sys.argv[2:]
d = "/verif/seeded/" + sid
out = subprocess.run(["python3", "/verif/tools_seed_eval.py", d + "/patch.diff", d + "/demo_test.go", sid + "r"] + props, capture_output=True, text=True).stdout
r = json.loads(out)
meta = json.load(open(d + "/meta.json"))
for p, c in r.get("checks", {}).items():
    meta["checks"][p] = {"caught": c["exit"] == 1, "exit": c["exit"], "wall_s": c["wall_s"], "report": c["lines"][:4]}
    cmd = "VERIF_REPO=<worktree> ./check %s quick" % p
    if cmd not in meta["what_was_run"]:
        meta["what_was_run"].append(cmd)
    print(sid, p, "caught" if c["exit"] == 1 else "MISSED(exit %d)" % c["exit"], (c["lines"][1] if len(c["lines"]) > 1 else "")[:200])
json.dump(meta, open(d + "/meta.json", "w"), indent=1)
