#!/bin/sh
# Run once after a fresh restore, offline: builds the driver and warms the build cache by
# building every property's test binary from files on disk only.
cd "$(dirname "$0")" || exit 1
export GOFLAGS=-mod=mod GOPROXY=off GOSUMDB=off GOTOOLCHAIN=local
mkdir -p bin evidence replays .work
go build -o bin/check ./cmd/check || exit 1
bin/check build
