#!/bin/sh
# dev aid: rebuild and run the dump tool: ./d 'text with \n escapes'  (or stdin)
cd /verif && export GOFLAGS=-mod=mod GOPROXY=off GOSUMDB=off GOTOOLCHAIN=local
go build -o bin/dump ./cmd/dump && exec bin/dump "$@"
