#!/usr/bin/env python3
"""Confirm the seeded changes of one property produced by a sub-agent in /tmp/wt/<Cnn>/seed, run the
target check (and optional extra checks) against each, and keep the confirmed ones as /verif/seeded/<Cnn>-<n>/.
usage: tools_seed_keep.py Cnn [extra checks...]"""
import sys, os, json, subprocess, shutil, glob
prop = sys.argv[1]; extra = [a for a in sys.argv[2:] if not a.startswith("--")]
root = "/tmp/wt"; off = 0
for a in sys.argv[2:]:
    if a.startswith("--root="): root = a[7:]
    if a.startswith("--offset="): off = int(a[9:])
src = "%s/%s/seed" % (root, prop)
for patch in sorted(glob.glob(src + "/patch*.diff")):
    n = os.path.basename(patch)[5:-5]
    demo = "%s/demo%s_test.go" % (src, n)
    notes = "%s/notes%s.md" % (src, n)
    name = "%s-%d" % (prop, int(n) + off)
    out = subprocess.run(["python3", "/verif/tools_seed_eval.py", patch, demo, name, prop] + extra, capture_output=True, text=True).stdout
    try:
        r = json.loads(out)
    except Exception:
        print(name, "EVAL FAILED", out[-500:]); continue
    ok = r.get("applies") and r.get("builds") and r.get("suite_passes") and r.get("demo_fails_patched") and r.get("demo_passes_clean")
    caught = {p: (c["exit"] == 1) for p, c in r.get("checks", {}).items()}
    print(name, "confirmed" if ok else "NOT CONFIRMED", {k: r.get(k) for k in ("applies", "builds", "suite_passes", "demo_fails_patched", "demo_passes_clean")}, "caught:", caught)
    for p, c in r.get("checks", {}).items():
        for l in c["lines"][:3]: print("    ", p, l[:230])
    if not ok:
        continue
    dst = "/verif/seeded/" + name
    os.makedirs(dst, exist_ok=True)
    shutil.copy(patch, dst + "/patch.diff")
    shutil.copy(demo, dst + "/demo_test.go")
    meta = {
        "id": name, "property": prop,
        "source": "independent sub-agent given only the property text and a scratch worktree",
        "needs_to_manifest": open(notes).read() if os.path.exists(notes) else "",
        "confirmed": {"applies_to_HEAD": True, "builds": True, "existing_suite_passes": True, "demo_fails_with_change": True, "demo_passes_without": True},
        "what_was_run": ["git apply patch.diff (scratch worktree)", "go build ./... && go vet", "go test -count=1 ./...", "go test -run <demo> (with and without the change)"] + ["VERIF_REPO=<worktree> ./check %s quick" % p for p in r.get("checks", {})],
        "checks": {p: {"caught": c["exit"] == 1, "exit": c["exit"], "wall_s": c["wall_s"], "report": c["lines"][:4]} for p, c in r.get("checks", {}).items()},
    }
    json.dump(meta, open(dst + "/meta.json", "w"), indent=1)
