#!/usr/bin/env python3
"""Sensitivity sweep (development aid, DESIGN.md section 15): sample syntactic mutants of the
library (cmd/mutate), drop those that do not compile or that the repository's own suite kills,
and run the quick checks against the rest (through VERIF_REPO) until one reports a violation.
usage: tools_mutsweep.py <n> <seed> <outfile.jsonl> [workers] [file-filter]
Nothing is ever written to /repo; every scratch tree lives under /tmp/mut and is removed."""
import sys, os, subprocess, json, random, shutil, glob, time, hashlib
from concurrent.futures import ThreadPoolExecutor
N, SEED, OUT = int(sys.argv[1]), int(sys.argv[2]), sys.argv[3]
W = int(sys.argv[4]) if len(sys.argv) > 4 else 5
FILT = sys.argv[5] if len(sys.argv) > 5 else ""
FILES = ["blocks.go", "inlines.go", "parse.go", "parse_html.go", "html_renderer.go", "references.go", "walk.go", "node.go", "format/format.go"]
ROOT = os.path.dirname(os.path.abspath(__file__))
ENV = dict(os.environ, GOFLAGS="-mod=mod", GOPROXY="off", GOSUMDB="off", GOTOOLCHAIN="local")
ORDER = {
    "format/format.go": ["C20", "C04", "C19"],
    "walk.go": ["C18", "C10", "C20", "C04"],
    "html_renderer.go": ["C10", "C07", "C17", "C06", "C04", "C14", "C09", "C11", "C19"],
    "references.go": ["C12", "C06", "C16", "C10"],
}
GENERIC = ["C05", "C06", "C02", "C03", "C13", "C16", "C09", "C10", "C14", "C08", "C01", "C12", "C11", "C07", "C17", "C15", "C20", "C18", "C04", "C19"]

def sh(cmd, cwd=None, timeout=1800, extra=None):
    e = dict(ENV); e.update(extra or {})
    try:
        p = subprocess.run(cmd, shell=True, cwd=cwd, env=e, capture_output=True, text=True, errors="replace", timeout=timeout)
        return p.returncode, p.stdout + p.stderr
    except subprocess.TimeoutExpired:
        return 124, "timeout"

COMMIT = subprocess.run("git -C /repo rev-parse HEAD", shell=True, capture_output=True, text=True).stdout.strip()
BASE = "/tmp/mut/base-" + COMMIT[:10]

def sites():
    # the sweep is pinned to the commit that is HEAD when it starts: sites are
    # listed from, and mutants applied to, an extracted copy of that commit, so
    # that later commits in /repo do not shift the site numbers under it
    shutil.rmtree(BASE, ignore_errors=True); os.makedirs(BASE)
    sh("git -C /repo archive %s | tar -x -C %s" % (COMMIT, BASE))
    all_ = []
    for f in FILES:
        if FILT and FILT not in f: continue
        rc, out = sh("%s/bin/mutate list %s/%s" % (ROOT, BASE, f))
        for l in out.splitlines():
            i, line, op, desc = l.split("\t")
            all_.append((f, int(i), int(line), op, desc))
    return all_

def alt_tag(path):
    # same FNV-1a 32 as cmd/check altTag
    h = 0x811c9dc5
    for b in path.encode():
        h ^= b; h = (h * 0x01000193) & 0xffffffff
    return "-alt%08x" % h

def one(m):
    f, i, line, op, desc = m
    mid = "%s_%d" % (f.replace("/", "_").replace(".go", ""), i)
    d = "/tmp/mut/" + mid
    res = {"id": mid, "file": f, "site": i, "line": line, "op": op, "desc": desc}
    shutil.rmtree(d, ignore_errors=True); os.makedirs(d)
    try:
        sh("git -C /repo archive %s | tar -x -C %s" % (COMMIT, d))
        rc, out = sh("%s/bin/mutate apply %s/%s %d %s/%s" % (ROOT, BASE, f, i, d, f))
        if rc != 0:
            res["status"] = "apply_failed"; return res
        rc, out = sh("go build ./...", cwd=d, timeout=300)
        if rc != 0:
            res["status"] = "nocompile"; return res
        rc, out = sh("go test -count=1 -timeout 150s ./...", cwd=d, timeout=400)
        if rc != 0:
            res["status"] = "killed_by_suite"; return res
        res["status"] = "survivor"; res["checks"] = {}
        order = ORDER.get(f, []) + [p for p in GENERIC if p not in ORDER.get(f, [])]
        for p in order:
            t0 = time.time()
            rc, out = sh("./check %s quick" % p, cwd=ROOT, extra={"VERIF_REPO": d}, timeout=1500)
            res["checks"][p] = rc
            if rc == 1:
                res["status"] = "caught"; res["by"] = p
                vl = [l for l in out.splitlines() if l.startswith("  check=")]
                res["report"] = vl[0][:300] if vl else ""
                break
        return res
    finally:
        shutil.rmtree(d, ignore_errors=True)
        t = alt_tag(d)
        for g in glob.glob(ROOT + "/bin/*%s*" % t) + glob.glob(ROOT + "/.work/*%s*" % t):
            if os.path.isdir(g): shutil.rmtree(g, ignore_errors=True)
            else:
                try: os.remove(g)
                except OSError: pass

def main():
    rc, out = sh("mkdir -p bin && go build -o bin/mutate ./cmd/mutate && go build -o bin/check ./cmd/check", cwd=ROOT)
    if rc != 0:
        print(out); sys.exit(2)
    allsites = sites()
    rnd = random.Random(SEED)
    pick = rnd.sample(allsites, min(N, len(allsites)))
    done = set()
    if os.path.exists(OUT):
        for l in open(OUT):
            try: done.add(json.loads(l)["id"])
            except Exception: pass
    pick = [m for m in pick if "%s_%d" % (m[0].replace("/", "_").replace(".go", ""), m[1]) not in done]
    print("sites", len(allsites), "to run", len(pick), flush=True)
    with ThreadPoolExecutor(W) as ex, open(OUT, "a") as fo:
        for r in ex.map(one, pick):
            fo.write(json.dumps(r) + "\n"); fo.flush()
            print(r["id"], r["line"], r["op"], r["desc"], "=>", r["status"], r.get("by", ""), flush=True)

main()
