#!/bin/sh
# dev aid: re-run every kept seed against its own property's quick check (through VERIF_REPO worktrees), 4 at a time
cd /verif
ls seeded | xargs -P 4 -I{} sh -c 'p=$(echo {} | cut -d- -f1); python3 tools_seed_recheck.py {} $p 2>&1 | cut -c1-160'
