#!/bin/sh
# dev aid: run every property's quick check at a seed, several at a time (load test); prints one line each
seed=${1:-1}; par=${2:-8}
cd /verif
ls props | tr a-z A-Z | xargs -P $par -I{} sh -c "VERIF_SEED=$seed ./check {} quick 2>&1 | grep -E '^(OK|VIOLATION|INCONCLUSIVE|KNOWN)' | cut -c1-220"
