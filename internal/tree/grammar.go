package tree

import (
	"fmt"

	cm "zombiezen.com/go/commonmark"
)

type gctx struct {
	src []byte
	v   []Viol
}

func (g *gctx) add(f string, a ...any) { g.v = append(g.v, Viol{"C05", fmt.Sprintf(f, a...)}) }

var containerChild = map[cm.BlockKind]bool{
	cm.ParagraphKind: true, cm.ThematicBreakKind: true, cm.ATXHeadingKind: true, cm.SetextHeadingKind: true,
	cm.IndentedCodeBlockKind: true, cm.FencedCodeBlockKind: true, cm.HTMLBlockKind: true, cm.LinkReferenceDefinitionKind: true,
	cm.BlockQuoteKind: true, cm.ListKind: true,
}

func isPhrasing(k cm.InlineKind) bool {
	switch k {
	// (An Indent node stands for white space that is content: it occurs in code
	// blocks, code spans, raw HTML and link attributes, never directly in a
	// paragraph, heading, emphasis or link text, whose lines lose their
	// leading white space.)
	case cm.TextKind, cm.SoftLineBreakKind, cm.HardLineBreakKind, cm.CharacterReferenceKind,
		cm.EmphasisKind, cm.StrongKind, cm.LinkKind, cm.ImageKind, cm.CodeSpanKind, cm.AutolinkKind, cm.HTMLTagKind:
		return true
	}
	return false
}

func (g *gctx) block(b *cm.Block, parent *cm.Block) {
	k := b.Kind()
	n := b.ChildCount()
	// accessors
	switch k {
	case cm.ATXHeadingKind:
		if l := b.HeadingLevel(); l < 1 || l > 6 {
			g.add("atx level %d", l)
		}
	case cm.SetextHeadingKind:
		if l := b.HeadingLevel(); l < 1 || l > 2 {
			g.add("setext level %d", l)
		}
	default:
		if b.HeadingLevel() != 0 {
			g.add("%v heading level %d", k, b.HeadingLevel())
		}
	}
	if k != cm.ListKind && k != cm.ListItemKind {
		if b.IsTightList() {
			g.add("%v IsTightList", k)
		}
		if b.IsOrderedList() {
			g.add("%v IsOrderedList", k)
		}
	}
	if num := b.ListItemNumber(g.src); k == cm.ListItemKind && b.IsOrderedList() {
		if num < 0 || num > 999999999 {
			g.add("ordered item number %d", num)
		} else if b.ChildCount() > 0 && b.Child(0).Block() != nil && b.Child(0).Block().Kind() == cm.ListMarkerKind {
			// the accessor agrees with the marker: the number is the decimal
			// value of the marker's digits, and a bullet marker has none
			sp := b.Child(0).Span()
			if sp.IsValid() && sp.End <= len(g.src) {
				want, digits := 0, 0
				for _, c := range g.src[sp.Start:sp.End] {
					if c >= '0' && c <= '9' {
						want = want*10 + int(c-'0')
						digits++
					}
				}
				if digits > 0 && digits <= 9 && want != num {
					g.add("ordered item number %d but its marker is %q", num, g.src[sp.Start:sp.End])
				}
			}
		}
	} else if num != -1 {
		g.add("%v ListItemNumber %d", k, num)
	}
	if k != cm.FencedCodeBlockKind && b.InfoString() != nil {
		g.add("%v has info string", k)
	}
	if k == cm.FencedCodeBlockKind {
		var first *cm.Inline
		if n > 0 {
			if in := b.Child(0).Inline(); in != nil && in.Kind() == cm.InfoStringKind {
				first = in
			}
		}
		if b.InfoString() != first {
			g.add("fenced code: InfoString() is not its info string child (%v, child %v)", b.InfoString() != nil, first != nil)
		}
	}
	allInline := func(ok func(i int, k cm.InlineKind) bool) {
		for i := 0; i < n; i++ {
			in := b.Child(i).Inline()
			if in == nil {
				g.add("%v child %d is not inline", k, i)
				continue
			}
			if !ok(i, in.Kind()) {
				g.add("%v child %d kind %v not allowed", k, i, in.Kind())
			}
			g.inline(in, false, false)
		}
	}
	switch k {
	case cm.ListKind:
		if n == 0 {
			g.add("empty list")
		}
		for i := 0; i < n; i++ {
			c := b.Child(i).Block()
			if c == nil || c.Kind() != cm.ListItemKind {
				g.add("list child %d not item", i)
				continue
			}
			if c.IsOrderedList() != b.IsOrderedList() || c.IsTightList() != b.IsTightList() {
				g.add("list/item disagree ordered/tight")
			}
			g.block(c, b)
		}
	case cm.ListItemKind:
		if parent == nil || parent.Kind() != cm.ListKind {
			g.add("item outside list")
		}
		if n == 0 || b.Child(0).Block() == nil || b.Child(0).Block().Kind() != cm.ListMarkerKind {
			g.add("item without marker first")
		}
		for i := 1; i < n; i++ {
			c := b.Child(i).Block()
			if c == nil || !containerChild[c.Kind()] {
				g.add("item child %d bad", i)
				continue
			}
			g.block(c, b)
		}
	case cm.BlockQuoteKind:
		for i := 0; i < n; i++ {
			c := b.Child(i).Block()
			if c == nil || !containerChild[c.Kind()] {
				g.add("quote child %d bad", i)
				continue
			}
			g.block(c, b)
		}
	case cm.ListMarkerKind:
		if n != 0 {
			g.add("marker has children")
		}
		if parent == nil || parent.Kind() != cm.ListItemKind {
			g.add("marker outside item")
		}
	case cm.ThematicBreakKind:
		if n != 0 {
			g.add("hr has children")
		}
	case cm.ParagraphKind, cm.ATXHeadingKind, cm.SetextHeadingKind:
		allInline(func(i int, ik cm.InlineKind) bool { return isPhrasing(ik) })
	case cm.IndentedCodeBlockKind:
		allInline(func(i int, ik cm.InlineKind) bool {
			return ik == cm.TextKind || ik == cm.IndentKind || ik == cm.SoftLineBreakKind
		})
	case cm.FencedCodeBlockKind:
		allInline(func(i int, ik cm.InlineKind) bool {
			return ik == cm.TextKind || ik == cm.IndentKind || ik == cm.SoftLineBreakKind || (i == 0 && ik == cm.InfoStringKind)
		})
	case cm.HTMLBlockKind:
		allInline(func(i int, ik cm.InlineKind) bool { return ik == cm.RawHTMLKind || ik == cm.IndentKind })
	case cm.LinkReferenceDefinitionKind:
		if n < 2 || n > 3 {
			g.add("refdef child count %d", n)
		}
		allInline(func(i int, ik cm.InlineKind) bool {
			return (i == 0 && ik == cm.LinkLabelKind) || (i == 1 && ik == cm.LinkDestinationKind) || (i == 2 && ik == cm.LinkTitleKind)
		})
	default:
		g.add("unexpected block kind %v", k)
	}
}

func (g *gctx) inline(in *cm.Inline, inLink bool, inImage bool) {
	k := in.Kind()
	n := in.ChildCount()
	kids := func(ok func(i int, k cm.InlineKind) bool, link bool) {
		for i := 0; i < n; i++ {
			c := in.Child(i)
			if !ok(i, c.Kind()) {
				g.add("%v child %d kind %v not allowed", k, i, c.Kind())
			}
			g.inline(c, link, inImage)
		}
	}
	if k != cm.LinkKind && k != cm.ImageKind {
		if in.LinkDestination() != nil || in.LinkTitle() != nil {
			g.add("%v has link dest/title", k)
		}
	}
	switch k {
	case cm.TextKind, cm.SoftLineBreakKind, cm.HardLineBreakKind, cm.IndentKind, cm.CharacterReferenceKind, cm.RawHTMLKind:
		if n != 0 {
			g.add("%v leaf has children", k)
		}
	case cm.UnparsedKind:
		g.add("unparsed remains")
	case cm.EmphasisKind, cm.StrongKind:
		if n == 0 {
			g.add("%v empty", k)
		}
		kids(func(i int, ck cm.InlineKind) bool { return isPhrasing(ck) }, inLink)
	case cm.LinkKind, cm.ImageKind:
		if k == cm.LinkKind && inLink {
			g.add("link in link")
		}
		// tail
		tail := 0
		if n >= 1 && in.Child(n-1).Kind() == cm.LinkLabelKind {
			tail = 1
		} else {
			if n >= 1 && in.Child(n-1).Kind() == cm.LinkTitleKind {
				tail++
			}
			if n-tail >= 1 && in.Child(n-tail-1).Kind() == cm.LinkDestinationKind {
				tail++
			}
		}
		for i := 0; i < n; i++ {
			c := in.Child(i)
			if i < n-tail {
				if !isPhrasing(c.Kind()) {
					g.add("%v content child %d kind %v", k, i, c.Kind())
				}
				g.inline(c, inLink || k == cm.LinkKind, inImage || k == cm.ImageKind)
			} else {
				g.inline(c, false, false)
			}
		}
		if in.LinkReference() != "" {
			if in.LinkDestination() != nil || in.LinkTitle() != nil {
				g.add("reference link has dest/title")
			}
		} else if tail == 1 && in.Child(n-1).Kind() == cm.LinkLabelKind {
			g.add("label child but empty reference")
		} else {
			// the accessors agree with the shape: LinkDestination() and LinkTitle()
			// are the destination and title children, nil when there is none
			var wantDest, wantTitle *cm.Inline
			for i := n - tail; i < n; i++ {
				switch c := in.Child(i); c.Kind() {
				case cm.LinkDestinationKind:
					wantDest = c
				case cm.LinkTitleKind:
					wantTitle = c
				}
			}
			if in.LinkDestination() != wantDest {
				g.add("%v: LinkDestination() is not its destination child (%v, child %v)", k, in.LinkDestination() != nil, wantDest != nil)
			}
			if in.LinkTitle() != wantTitle {
				g.add("%v: LinkTitle() is not its title child (%v, child %v)", k, in.LinkTitle() != nil, wantTitle != nil)
			}
		}
	case cm.CodeSpanKind:
		kids(func(i int, ck cm.InlineKind) bool { return ck == cm.TextKind || ck == cm.IndentKind }, inLink)
	case cm.AutolinkKind:
		if n != 1 || in.Child(0).Kind() != cm.TextKind {
			g.add("autolink children")
		}
	case cm.HTMLTagKind:
		if n == 0 {
			g.add("empty html tag")
		}
		kids(func(i int, ck cm.InlineKind) bool { return ck == cm.RawHTMLKind || ck == cm.IndentKind }, inLink)
	case cm.InfoStringKind, cm.LinkDestinationKind, cm.LinkTitleKind:
		kids(func(i int, ck cm.InlineKind) bool {
			return ck == cm.TextKind || ck == cm.CharacterReferenceKind || ck == cm.IndentKind
		}, false)
	case cm.LinkLabelKind:
		kids(func(i int, ck cm.InlineKind) bool { return ck == cm.TextKind || ck == cm.IndentKind }, false)
	default:
		g.add("unexpected inline kind %v", k)
	}
}

func CheckGrammar(b *cm.RootBlock) []Viol {
	g := &gctx{src: b.Source}
	if !containerChild[b.Kind()] {
		g.add("root kind %v", b.Kind())
	}
	g.block(&b.Block, nil)
	return g.v
}
