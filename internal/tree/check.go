package tree

import (
	"bytes"
	"fmt"
	"strings"
	"unicode/utf8"

	"verif/internal/entities"
	"verif/internal/specre"
	cm "zombiezen.com/go/commonmark"
)

type Viol struct {
	Prop string
	Msg  string
}

func lineOf(in []byte, off int) int {
	n := 1
	for i := 0; i < off; i++ {
		switch in[i] {
		case '\n':
			n++
		case '\r':
			if i+1 >= len(in) || in[i+1] != '\n' {
				n++
			}
		}
	}
	return n
}

// CheckC01 checks the root-block tiling invariants of property C01 for the
// blocks obtained from input in. inMemory selects the aliasing clause (Source
// must be a sub-slice of the caller's buffer when the input has no NUL).
func CheckC01(in []byte, blocks []*cm.RootBlock, inMemory bool) (v []Viol) {
	hasNUL := bytes.IndexByte(in, 0) >= 0
	prevEnd := int64(0)
	for i, b := range blocks {
		if b == nil {
			v = append(v, Viol{"C01", fmt.Sprintf("block %d is nil", i)})
			return
		}
		if b.StartOffset < prevEnd || b.EndOffset < b.StartOffset || b.EndOffset > int64(len(in)) {
			v = append(v, Viol{"C01", fmt.Sprintf("block %d offsets [%d,%d) prevEnd %d len %d", i, b.StartOffset, b.EndOffset, prevEnd, len(in))})
			return
		}
		for _, c := range in[prevEnd:b.StartOffset] {
			if c != ' ' && c != '\t' && c != '\r' && c != '\n' {
				v = append(v, Viol{"C01", fmt.Sprintf("gap before block %d has byte %q", i, c)})
				break
			}
		}
		want := bytes.ReplaceAll(in[b.StartOffset:b.EndOffset], []byte{0}, []byte("\ufffd"))
		if !bytes.Equal(want, b.Source) {
			v = append(v, Viol{"C01", fmt.Sprintf("block %d source %q want %q", i, b.Source, want)})
		}
		if wl := lineOf(in, int(b.StartOffset)); b.StartLine != wl {
			v = append(v, Viol{"C01", fmt.Sprintf("block %d StartLine %d want %d", i, b.StartLine, wl)})
		}
		if !hasNUL {
			if int(b.EndOffset-b.StartOffset) != len(b.Source) {
				v = append(v, Viol{"C01", fmt.Sprintf("block %d EndOffset-StartOffset=%d len(Source)=%d", i, b.EndOffset-b.StartOffset, len(b.Source))})
			}
			if inMemory && len(b.Source) > 0 && &b.Source[0] != &in[b.StartOffset] {
				v = append(v, Viol{"C01", fmt.Sprintf("block %d Source does not alias the caller's buffer", i)})
			}
		}
		prevEnd = b.EndOffset
	}
	for _, c := range in[prevEnd:] {
		if c != ' ' && c != '\t' && c != '\r' && c != '\n' {
			v = append(v, Viol{"C01", fmt.Sprintf("gap after last block has byte %q", c)})
			break
		}
	}
	return
}

type ctx struct {
	src    []byte
	valid  bool
	cover  []uint8
	inside []bool // bytes inside the span of an inline node that has children
	v      []Viol
}

// validSpan is the meaning of "valid range", stated here and not taken from
// the library's Span.IsValid.
func validSpan(sp cm.Span) bool { return sp.Start >= 0 && sp.End >= sp.Start }

func (c *ctx) add(p, f string, a ...any) { c.v = append(c.v, Viol{p, fmt.Sprintf(f, a...)}) }

func kindName(n cm.Node) string {
	if b := n.Block(); b != nil {
		return b.Kind().String()
	}
	return n.Inline().Kind().String()
}

func (c *ctx) walk(n cm.Node, parent cm.Span, inLink bool) {
	sp := n.Span()
	if sp.IsValid() != validSpan(sp) {
		c.add("C02", "%s span %v: IsValid() = %v", kindName(n), sp, sp.IsValid())
	}
	if !validSpan(sp) || sp.End > len(c.src) {
		c.add("C02", "%s invalid span %v", kindName(n), sp)
		return
	}
	if sp.Start < parent.Start || sp.End > parent.End {
		c.add("C02", "%s span %v outside parent %v", kindName(n), sp, parent)
	}
	if c.valid {
		for _, p := range []int{sp.Start, sp.End} {
			if p > 0 && p < len(c.src) && !utf8.RuneStart(c.src[p]) {
				c.add("C02", "%s span %v splits rune", kindName(n), sp)
			}
		}
	}
	c.shape(n)
	nc := n.ChildCount()
	isLeaf := nc == 0 && (n.Inline() != nil || n.Block().Kind() == cm.ListMarkerKind)
	if nc > 0 && n.Inline() != nil {
		for i := sp.Start; i < sp.End; i++ {
			c.inside[i] = true
		}
	}
	if isLeaf {
		for i := sp.Start; i < sp.End; i++ {
			if c.cover[i] < 255 {
				c.cover[i]++
			}
		}
	}
	prevEnd := sp.Start
	for i := 0; i < nc; i++ {
		ch := n.Child(i)
		cs := ch.Span()
		if validSpan(cs) && cs.Start < prevEnd {
			c.add("C02", "%s child %d %s span %v overlaps/precedes prev end %d", kindName(n), i, kindName(ch), cs, prevEnd)
		}
		if validSpan(cs) && cs.End > prevEnd {
			prevEnd = cs.End
		}
		c.walk(ch, sp, inLink)
	}
}

func (c *ctx) shape(n cm.Node) {
	sp := n.Span()
	t := c.src[sp.Start:sp.End]
	bad := func(why string) { c.add("C13", "%s span %q: %s", kindName(n), t, why) }
	if in := n.Inline(); in != nil {
		switch in.Kind() {
		case cm.EmphasisKind:
			if len(t) < 2 || (t[0] != '*' && t[0] != '_') || t[len(t)-1] != t[0] {
				bad("emphasis delimiters")
			}
		case cm.StrongKind:
			if len(t) < 4 || (t[0] != '*' && t[0] != '_') || t[1] != t[0] || t[len(t)-1] != t[0] || t[len(t)-2] != t[0] {
				bad("strong delimiters")
			}
		case cm.CodeSpanKind:
			a := 0
			for a < len(t) && t[a] == '`' {
				a++
			}
			z := 0
			for z < len(t) && t[len(t)-1-z] == '`' {
				z++
			}
			if a == 0 || a != z || 2*a > len(t) {
				bad("code span fences")
			}
		case cm.LinkKind:
			if len(t) < 2 || t[0] != '[' || (t[len(t)-1] != ']' && t[len(t)-1] != ')') {
				bad("link brackets")
			} else if (in.LinkReference() != "") != (t[len(t)-1] == ']') {
				bad("a reference link ends with ']', an inline link with ')'")
			}
		case cm.ImageKind:
			if len(t) < 3 || t[0] != '!' || t[1] != '[' || (t[len(t)-1] != ']' && t[len(t)-1] != ')') {
				bad("image brackets")
			} else if (in.LinkReference() != "") != (t[len(t)-1] == ']') {
				bad("a reference image ends with ']', an inline image with ')'")
			}
		case cm.LinkTitleKind:
			// a title is delimited by "...", '...' or (...)
			if len(t) < 2 || !((t[0] == '"' && t[len(t)-1] == '"') || (t[0] == '\'' && t[len(t)-1] == '\'') || (t[0] == '(' && t[len(t)-1] == ')')) {
				bad("title delimiters")
			}
		case cm.LinkDestinationKind:
			// a destination in angle brackets is closed by one
			if len(t) > 0 && t[0] == '<' && (len(t) < 2 || t[len(t)-1] != '>') {
				bad("destination angle brackets")
			}
		case cm.AutolinkKind:
			if len(t) < 2 || t[0] != '<' || t[len(t)-1] != '>' {
				bad("angle brackets")
			} else if specre.Autolink(string(t)) == "" {
				bad("not an autolink by the spec's definition (scheme of 2-32 characters, a colon, no space, control character, '<' or '>'; or an e-mail address)")
			}
		case cm.HTMLTagKind:
			if len(t) < 2 || t[0] != '<' || t[len(t)-1] != '>' {
				bad("angle brackets")
			} else if txt := c.childText(in); specre.HTMLTag(txt) == "" {
				bad(fmt.Sprintf("its text %q is not an open tag, closing tag, comment, processing instruction, declaration or CDATA section by the spec's definitions", txt))
			}
		case cm.CharacterReferenceKind:
			if len(t) < 3 || t[0] != '&' || t[len(t)-1] != ';' {
				bad("char ref")
			} else if !specre.CharRef(string(t), entities.Names) {
				bad("not a numeric character reference of 1-7 digits / 1-6 hex digits nor a named reference of the HTML5 table")
			}
		case cm.HardLineBreakKind:
			ok := false
			if len(t) >= 1 && t[0] == '\\' {
				r := t[1:]
				// "a backslash ... with the line ending": the node covers both
				ok = string(r) == "\n" || string(r) == "\r" || string(r) == "\r\n"
			} else {
				i := 0
				for i < len(t) && t[i] == ' ' {
					i++
				}
				r := string(t[i:])
				ok = i >= 2 && (r == "\n" || r == "\r" || r == "\r\n")
			}
			if !ok {
				bad("hard break")
			}
		}
		return
	}
	b := n.Block()
	switch b.Kind() {
	case cm.ListMarkerKind:
		ok := false
		if len(t) == 1 && (t[0] == '-' || t[0] == '+' || t[0] == '*') {
			ok = true
		} else if len(t) >= 2 && len(t) <= 10 && (t[len(t)-1] == '.' || t[len(t)-1] == ')') {
			ok = true
			for _, d := range t[:len(t)-1] {
				if d < '0' || d > '9' {
					ok = false
				}
			}
		}
		if !ok {
			bad("list marker")
		}
	case cm.ATXHeadingKind:
		l := 0
		for l < len(t) && t[l] == '#' {
			l++
		}
		if l != b.HeadingLevel() || l < 1 || l > 6 {
			bad(fmt.Sprintf("atx level %d hashes %d", b.HeadingLevel(), l))
		} else if lv, _, _ := specre.ATX(firstLine(t)); lv != l {
			bad("first line is not an ATX heading line by the spec's definition")
		}
	case cm.SetextHeadingKind:
		tt := bytes.TrimRight(t, " \t\r\n")
		want := byte('=')
		if b.HeadingLevel() == 2 {
			want = '-'
		}
		if len(tt) == 0 || tt[len(tt)-1] != want {
			bad("setext underline")
		}
	case cm.FencedCodeBlockKind:
		if !(bytes.HasPrefix(t, []byte("```")) || bytes.HasPrefix(t, []byte("~~~"))) {
			bad("fence")
		} else if _, n, _ := specre.Fence(firstLine(t)); n < 3 {
			bad("first line is not a code fence by the spec's definition")
		}
	case cm.ThematicBreakKind:
		if specre.ThematicBreak(firstLine(t)) < 0 || len(firstLine(t)) != len(t) {
			bad("not a thematic break line by the spec's definition")
		}
	case cm.BlockQuoteKind:
		if len(t) == 0 || t[0] != '>' {
			bad("quote marker")
		}
	}
}

// firstLine returns the text up to and including its first line ending.
func firstLine(t []byte) string {
	for i, ch := range t {
		if ch == '\n' {
			return string(t[:i+1])
		}
		if ch == '\r' {
			if i+1 < len(t) && t[i+1] == '\n' {
				return string(t[:i+2])
			}
			return string(t[:i+1])
		}
	}
	return string(t)
}

// childText is the text of an HTML tag as its children give it: raw HTML
// verbatim, indentation as spaces (container prefixes between the lines of a
// tag are in neither).
func (c *ctx) childText(in *cm.Inline) string {
	var sb strings.Builder
	for i := 0; i < in.ChildCount(); i++ {
		ch := in.Child(i)
		switch ch.Kind() {
		case cm.IndentKind:
			sb.WriteString(strings.Repeat(" ", ch.IndentWidth()))
		default:
			sp := ch.Span()
			if sp.IsValid() && sp.End <= len(c.src) {
				sb.Write(c.src[sp.Start:sp.End])
			}
		}
	}
	return sb.String()
}

func CheckTree(b *cm.RootBlock) []Viol {
	c := &ctx{src: b.Source, valid: utf8.Valid(b.Source), cover: make([]uint8, len(b.Source)), inside: make([]bool, len(b.Source))}
	sp := b.Span()
	if sp.End != len(b.Source) {
		c.add("C02", "root span %v end != len %d", sp, len(b.Source))
	}
	if validSpan(sp) && sp.Start <= len(b.Source) {
		for _, ch := range b.Source[:sp.Start] {
			if ch != ' ' && ch != '\t' {
				c.add("C02", "root span %v preceded by %q", sp, ch)
			}
		}
	}
	c.walk(b.AsNode(), cm.Span{Start: 0, End: len(b.Source)}, false)
	for i, n := range c.cover {
		ch := b.Source[i]
		textual := ch >= 0x80 || (ch >= '0' && ch <= '9') || (ch >= 'a' && ch <= 'z') || (ch >= 'A' && ch <= 'Z')
		if n > 1 {
			c.add("C03", "byte %d %q covered %d times", i, ch, n)
			break
		}
		if n == 0 && textual {
			c.add("C03", "byte %d %q not covered", i, ch)
			break
		}
	}
	// A paragraph at the top level has no container prefixes and no markers of
	// its own: apart from white space and the backslash of an escape, every
	// byte is either text (in a leaf) or syntax of an inline construct (inside
	// the span of a node with children). Punctuation that fell out of a failed
	// construct ("[a][]" without a definition) is text like any other.
	// (An ATX heading at the top level additionally has its opening and
	// closing sequences, which are '#' characters.)
	if (b.Kind() == cm.ParagraphKind || b.Kind() == cm.ATXHeadingKind) && validSpan(sp) && sp.End <= len(b.Source) {
		for i := sp.Start; i < sp.End; i++ {
			ch := b.Source[i]
			if c.cover[i] > 0 || c.inside[i] || ch == ' ' || ch == '\t' || ch == '\n' || ch == '\r' {
				continue
			}
			if ch == '#' && b.Kind() == cm.ATXHeadingKind {
				continue
			}
			if ch == '\\' && i+1 < sp.End && specre.IsASCIIPunctuation(b.Source[i+1]) {
				continue
			}
			c.add("C03", "byte %d %q of a top-level %v is neither in a leaf nor inside an inline construct", i, ch, b.Kind())
			break
		}
	}
	return c.v
}
