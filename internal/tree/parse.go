package tree

import (
	"io"

	cm "zombiezen.com/go/commonmark"
)

// StreamParse reads all blocks from r one at a time, extracts reference
// definitions and rewrites inlines, i.e. the documented way to get a fully
// parsed document out of the streaming entry point.
func StreamParse(r io.Reader) ([]*cm.RootBlock, cm.ReferenceMap, error) {
	p := cm.NewBlockParser(r)
	var blocks []*cm.RootBlock
	refs := make(cm.ReferenceMap)
	for {
		b, err := p.NextBlock()
		if err != nil {
			ip := &cm.InlineParser{ReferenceMatcher: refs}
			for _, b := range blocks {
				ip.Rewrite(b)
			}
			if err == io.EOF {
				return blocks, refs, nil
			}
			return blocks, refs, err
		}
		blocks = append(blocks, b)
		refs.Extract(b.Source, b.AsNode())
	}
}
