package tree

import (
	"fmt"
	"sort"
	"strings"

	cm "zombiezen.com/go/commonmark"
)

// Dump renders everything observable about a tree through the public node API
// (kinds, spans, every accessor, children) as text; two trees are structurally
// equal iff their dumps are equal. Spans are printed relative to base (use 0
// for absolute).
func Dump(src []byte, n cm.Node) string {
	var sb strings.Builder
	dump(&sb, src, n, 0)
	return sb.String()
}

func safe(src []byte, sp cm.Span) string {
	if !sp.IsValid() || sp.End > len(src) {
		return "<<INVALID>>"
	}
	return string(src[sp.Start:sp.End])
}

func dump(sb *strings.Builder, src []byte, n cm.Node, depth int) {
	for i := 0; i < depth; i++ {
		sb.WriteString("  ")
	}
	if b := n.Block(); b != nil {
		sp := b.Span()
		fmt.Fprintf(sb, "%v %v level=%d ordered=%v tight=%v num=%d info=%v", b.Kind(), sp, b.HeadingLevel(), b.IsOrderedList(), b.IsTightList(), safeNum(b, src), b.InfoString() != nil)
		sb.WriteByte('\n')
	} else if i := n.Inline(); i != nil {
		sp := i.Span()
		fmt.Fprintf(sb, "%v %v indent=%d ref=%q dest=%v title=%v text=%q", i.Kind(), sp, i.IndentWidth(), i.LinkReference(), spanOf(i.LinkDestination()), spanOf(i.LinkTitle()), safeText(i, src))
		sb.WriteByte('\n')
	} else {
		sb.WriteString("<nil node>\n")
		return
	}
	for k := 0; k < n.ChildCount(); k++ {
		dump(sb, src, n.Child(k), depth+1)
	}
}

func spanOf(i *cm.Inline) string {
	if i == nil {
		return "nil"
	}
	return i.Span().String()
}

func safeNum(b *cm.Block, src []byte) (n int) {
	defer func() {
		if recover() != nil {
			n = -999
		}
	}()
	return b.ListItemNumber(src)
}

func safeText(i *cm.Inline, src []byte) (s string) {
	defer func() {
		if recover() != nil {
			s = "<<PANIC>>"
		}
	}()
	return i.Text(src)
}

// DumpRoot is Dump plus the root block's position fields, with offsets and
// line shifted by the given amounts (so that documents that differ by a known
// prefix can be compared).
func DumpRoot(b *cm.RootBlock, offShift int64, lineShift int) string {
	return fmt.Sprintf("ROOT line=%d off=[%d,%d) src=%q\n%s", b.StartLine-lineShift, b.StartOffset-offShift, b.EndOffset-offShift, b.Source, Dump(b.Source, b.AsNode()))
}

// DumpRefs renders a reference map deterministically.
func DumpRefs(m cm.ReferenceMap) string {
	keys := make([]string, 0, len(m))
	for k := range m {
		keys = append(keys, k)
	}
	sort.Strings(keys)
	var sb strings.Builder
	for _, k := range keys {
		d := m[k]
		fmt.Fprintf(&sb, "%q -> dest=%q title=%q present=%v\n", k, d.Destination, d.Title, d.TitlePresent)
	}
	return sb.String()
}

// Stats summarises a tree for non-triviality rules and labels.
type Stats struct {
	Nodes, Depth                                   int
	Blocks                                         map[cm.BlockKind]int
	Inlines                                        map[cm.InlineKind]int
	MultiLineInline, Containers, InContainerInline int
}

func Summarize(b *cm.RootBlock) Stats {
	s := Stats{Blocks: map[cm.BlockKind]int{}, Inlines: map[cm.InlineKind]int{}}
	var walk func(n cm.Node, d int, inContainer bool)
	walk = func(n cm.Node, d int, inContainer bool) {
		s.Nodes++
		if d > s.Depth {
			s.Depth = d
		}
		if bl := n.Block(); bl != nil {
			s.Blocks[bl.Kind()]++
			if k := bl.Kind(); k == cm.BlockQuoteKind || k == cm.ListKind {
				s.Containers++
				inContainer = true
			}
		} else if in := n.Inline(); in != nil {
			s.Inlines[in.Kind()]++
			switch in.Kind() {
			case cm.EmphasisKind, cm.StrongKind, cm.LinkKind, cm.ImageKind, cm.CodeSpanKind, cm.HTMLTagKind:
				sp := in.Span()
				if sp.IsValid() && sp.End <= len(b.Source) {
					t := b.Source[sp.Start:sp.End]
					for _, c := range t {
						if c == '\n' || c == '\r' {
							s.MultiLineInline++
							if inContainer {
								s.InContainerInline++
							}
							break
						}
					}
				}
			}
		}
		for i := 0; i < n.ChildCount(); i++ {
			walk(n.Child(i), d+1, inContainer)
		}
	}
	walk(b.AsNode(), 1, false)
	return s
}
