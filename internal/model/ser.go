package model

import (
	"fmt"
	"strings"
	"unicode"
)

// Style switches groups of spelling choices. The zero value allows every
// spelling; Canonical pins every choice to the canonical style of DESIGN.md
// (C20).
type Style struct {
	Canonical bool
	// NoSoftSpaces: never put optional spaces around a soft break (open
	// finding: the library keeps them in the text).
	NoSoftSpaces bool
	NoTabs       bool
	NoLazy       bool
	// NoLinkNewlines: never put a line ending between '(' / destination / title
	NoLinkNewlines bool
}

type Ser struct {
	C  Chooser
	St Style

	wsBlank int // 0 = not drawn yet, 1 = separators are empty lines, 2 = separators may hold white space
}

func (s *Ser) pick(label string, n int) int {
	if s.St.Canonical {
		// the canonical style pins every choice, except those a PinnedExcept
		// chooser leaves free
		if pe, ok := s.C.(PinnedExcept); ok {
			return pe.Pick(label, n)
		}
		return 0
	}
	return s.C.Pick(label, n)
}

// inlState tracks what the serializer needs to know about the source emitted
// so far for the line-start guard (S1) and the neighbour rules.
type inlState struct {
	sb      strings.Builder
	heading bool
}

func (st *inlState) atLineStart() bool {
	s := st.sb.String()
	i := strings.LastIndexByte(s, '\n') + 1
	return strings.Trim(s[i:], " ") == ""
}

func (st *inlState) last() byte {
	s := st.sb.String()
	if len(s) == 0 {
		return '\n'
	}
	return s[len(s)-1]
}

// lineDigits reports whether the current line so far consists of digits only
// (then a literal '.' or ')' would make an ordered list marker).
func (st *inlState) lineDigits() bool {
	s := st.sb.String()
	i := strings.LastIndexByte(s, '\n') + 1
	for i < len(s) && s[i] == ' ' {
		i++
	}
	if i == len(s) {
		return false
	}
	for _, c := range s[i:] {
		if c < '0' || c > '9' {
			return false
		}
	}
	return true
}

const safeLiteral = ",;?/%@${}|'\"():."

var namedRefs = map[rune]string{'&': "amp", '<': "lt", '>': "gt", '"': "quot"}

// text spells a text run. next is the first source byte that will follow the
// run (0 if unknown/none).
func (s *Ser) text(st *inlState, t string, next byte) {
	rs := []rune(t)
	for i, r := range rs {
		isP := r < 0x80 && strings.ContainsRune(puncts, r)
		if !isP {
			st.sb.WriteRune(r)
			continue
		}
		var nx byte = next
		if i+1 < len(rs) {
			if rs[i+1] < 0x80 {
				nx = byte(rs[i+1])
			} else {
				nx = 'a'
			}
		}
		lit := false
		lineStart := st.atLineStart()
		switch {
		case strings.ContainsRune(safeLiteral, r) && !lineStart:
			lit = true
			if (r == '.' || r == ')') && st.lineDigits() {
				lit = false
			}
			if r == ':' && st.last() == ']' {
				lit = false // "[x]:" at a paragraph start would be a definition
			}
			if r == '(' && st.last() == ']' {
				lit = false // "](..." would be read as an inline link tail
			}
		case (r == '-' || r == '+' || r == '=' || r == '>' || r == '~' || r == '^') && !lineStart && !st.heading:
			lit = true
		case r == '!' && !lineStart:
			lit = nx != '['
		case r == '<' && !lineStart:
			lit = nx == ' '
		case (r == '*' || r == '_') && !lineStart:
			lit = st.last() == ' ' && nx == ' '
		}
		if st.heading && r == '#' {
			lit = false
		}
		// canonical style: backslash escapes only (index 0)
		switch k := s.pick("spell", 8); {
		case lit && k >= 4:
			st.sb.WriteRune(r)
		case k == 1 && r != '`':
			fmt.Fprintf(&st.sb, "&#%d;", r)
		case k == 2 || r == '`':
			// a literal backtick next to a code span would join its fence: always a reference
			if s.St.Canonical && r != '`' {
				st.sb.WriteString("\\" + string(r))
			} else {
				fmt.Fprintf(&st.sb, "&#x%X;", r)
			}
		case k == 3 && namedRefs[r] != "":
			st.sb.WriteString("&" + namedRefs[r] + ";")
		default:
			st.sb.WriteString("\\" + string(r))
		}
	}
}

func (s *Ser) codeSpan(c string) string {
	runs := map[int]bool{}
	n := 0
	for i := 0; i <= len(c); i++ {
		if i < len(c) && c[i] == '`' {
			n++
		} else if n > 0 {
			runs[n] = true
			n = 0
		}
	}
	f := 1
	for runs[f] {
		f++
	}
	if s.pick("longfence", 4) == 3 {
		f++
		for runs[f] {
			f++
		}
	}
	pad := ""
	allSpaces := strings.Trim(c, " ") == ""
	needPad := strings.HasPrefix(c, "`") || strings.HasSuffix(c, "`") || (strings.HasPrefix(c, " ") && strings.HasSuffix(c, " ") && !allSpaces)
	if needPad || (!allSpaces && s.pick("codepad", 3) == 2) {
		pad = " "
	}
	return strings.Repeat("`", f) + pad + c + pad + strings.Repeat("`", f)
}

// guardTitleLines escapes, on every line of a title after the first, a first
// character (or an ordered list delimiter after leading digits) that would
// start a block if the line began with it bare. esc escapes one line.
func guardTitleLines(t string, esc func(string) string) string {
	lines := strings.Split(t, "\n")
	for i, l := range lines {
		if i == 0 || l == "" {
			lines[i] = esc(l)
			continue
		}
		j := 0
		for j < len(l) && l[j] >= '0' && l[j] <= '9' {
			j++
		}
		switch {
		case j > 0 && j < len(l) && (l[j] == '.' || l[j] == ')'):
			lines[i] = l[:j] + "\\" + l[j:j+1] + esc(l[j+1:])
		case strings.IndexByte(puncts, l[0]) >= 0 && l[0] != '\\' && l[0] != '&':
			lines[i] = "\\" + l[:1] + esc(l[1:])
		default:
			lines[i] = esc(l)
		}
	}
	return strings.Join(lines, "\n")
}

func (s *Ser) titleStr(t string) string {
	amp := func(x string) string { return strings.ReplaceAll(x, "&", "&amp;") }
	if strings.Contains(t, "\n") {
		switch s.pick("titledelim", 3) {
		case 0:
			return `"` + guardTitleLines(t, func(x string) string { return amp(strings.NewReplacer(`\`, `\\`, `"`, `\"`).Replace(x)) }) + `"`
		case 1:
			return `'` + guardTitleLines(t, func(x string) string { return amp(strings.NewReplacer(`\`, `\\`, `'`, `\'`).Replace(x)) }) + `'`
		default:
			return `(` + guardTitleLines(t, func(x string) string { return amp(strings.NewReplacer(`\`, `\\`, `(`, `\(`, `)`, `\)`).Replace(x)) }) + `)`
		}
	}
	switch s.pick("titledelim", 3) {
	case 0:
		return `"` + amp(strings.NewReplacer(`\`, `\\`, `"`, `\"`).Replace(t)) + `"`
	case 1:
		return `'` + amp(strings.NewReplacer(`\`, `\\`, `'`, `\'`).Replace(t)) + `'`
	default:
		return `(` + amp(strings.NewReplacer(`\`, `\\`, `(`, `\(`, `)`, `\)`).Replace(t)) + `)`
	}
}

func (s *Ser) destStr(d string) string {
	angle := d == "" || strings.ContainsAny(d, " <") || strings.HasPrefix(d, "<")
	if !angle && s.pick("destangle", 3) == 2 {
		angle = true
	}
	if angle {
		return "<" + strings.ReplaceAll(strings.NewReplacer(`\`, `\\`, "<", `\<`, ">", `\>`).Replace(d), "&", "&amp;") + ">"
	}
	// bare: parentheses must be escaped unless they are balanced pairs; escape
	// them sometimes anyway
	out := strings.ReplaceAll(strings.NewReplacer(`\`, `\\`).Replace(d), "&", "&amp;")
	if !parensBalanced(d) || s.pick("escparen", 3) == 2 {
		out = strings.NewReplacer("(", `\(`, ")", `\)`).Replace(out)
	}
	// '*' and '_' in a bare destination are literal; nothing to do
	return out
}

// parensBalanced reports whether the parentheses of d form balanced pairs
// (never more closed than opened so far, none left open).
func parensBalanced(d string) bool {
	depth := 0
	for i := 0; i < len(d); i++ {
		switch d[i] {
		case '(':
			depth++
		case ')':
			depth--
			if depth < 0 {
				return false
			}
		}
	}
	return depth == 0
}

// lineStartSafeDest reports whether a spelled destination may be the first
// thing on a line (rule S1): it then must not look like a block start (quote
// marker, setext underline, fence, list marker, HTML block start conditions).
func lineStartSafeDest(d string) bool {
	if d == "" {
		return false
	}
	ok := func(c byte) bool {
		return c >= 0x80 || c >= '0' && c <= '9' || c >= 'a' && c <= 'z' || c >= 'A' && c <= 'Z' || c == '/'
	}
	if d[0] == '<' {
		return len(d) > 1 && ok(d[1])
	}
	return ok(d[0]) || strings.IndexByte("%?.:@", d[0]) >= 0
}

// firstByte is the first source byte an inline will produce.
func firstByte(in *Inline) byte {
	switch in.K {
	case Text:
		if in.S != "" {
			return in.S[0]
		}
		return 0
	case Soft, Hard:
		return '\n'
	case Em, Strong:
		return '*'
	case Code:
		return '`'
	case Link:
		return '['
	case Image:
		return '!'
	default:
		return '<'
	}
}

func (s *Ser) inl(st *inlState, ins []*Inline, after byte, parentDelim byte, multi bool) {
	for i, in := range ins {
		var next byte = after
		if i+1 < len(ins) {
			next = firstByte(ins[i+1])
		}
		switch in.K {
		case Text:
			s.text(st, in.S, next)
		case Soft:
			if !s.St.NoSoftSpaces && s.pick("softsp", 4) == 3 {
				st.sb.WriteString(" ")
			}
			st.sb.WriteString("\n")
			if !s.St.NoSoftSpaces && s.pick("softind", 4) == 3 {
				st.sb.WriteString(strings.Repeat(" ", 1+s.pick("softindn", 3)))
			}
		case Hard:
			if s.pick("hardstyle", 2) == 0 {
				st.sb.WriteString("\\\n")
			} else {
				st.sb.WriteString(strings.Repeat(" ", 2+s.pick("hardsp", 2)) + "\n")
			}
		case Em, Strong:
			c := byte('*')
			if s.pick("emchar", 2) == 1 {
				c = '_'
			}
			// '_' needs a non-alphanumeric on the outside on both ends, which the
			// document rules guarantee; directly nested runs use the other
			// character so that they do not fuse
			if parentDelim == c && (i == 0 || i == len(ins)-1) {
				c = '*' + '_' - c
			}
			d := string(c)
			if in.K == Strong {
				d += d
			}
			st.sb.WriteString(d)
			s.inl(st, in.Kids, c, c, multi)
			st.sb.WriteString(d)
		case Code:
			st.sb.WriteString(s.codeSpan(in.S))
		case Link, Image:
			if in.K == Image {
				st.sb.WriteString("!")
			}
			st.sb.WriteString("[")
			s.inl(st, in.Kids, ']', 0, multi)
			st.sb.WriteString("]")
			if in.RefLabel != "" {
				switch in.RefStyle {
				case 0:
					st.sb.WriteString("[" + in.RefLabel + "]")
				case 1:
					st.sb.WriteString("[]")
				}
				break
			}
			st.sb.WriteString("(")
			ds := s.destStr(in.Dest)
			if multi && !s.St.NoLinkNewlines && s.pick("nlbeforedest", 8) == 7 && lineStartSafeDest(ds) {
				st.sb.WriteString("\n")
			}
			st.sb.WriteString(ds)
			if in.Title != nil {
				if multi && !s.St.NoLinkNewlines && s.pick("nlbeforetitle", 5) == 4 {
					st.sb.WriteString("\n")
				} else {
					st.sb.WriteString(" ")
				}
				st.sb.WriteString(s.titleStr(*in.Title))
			}
			st.sb.WriteString(")")
		case Autolink:
			st.sb.WriteString("<" + in.S + ">")
		case RawTag:
			st.sb.WriteString(in.S)
		}
	}
}

type line struct {
	s    string
	lazy bool // paragraph continuation line: container markers may be dropped
	ind  int  // number of leading spaces of s that are structural indentation (may be spelled with tabs)
	sep  bool // a blank line that separates two blocks or items: s is empty or only spaces and tabs
}

// sepLine is a blank line between two blocks. The spec calls a line of spaces
// and tabs a blank line like an empty one, whatever its width and wherever it
// stands, so a separator may be spelled with white space (one document in
// four uses such spellings; the canonical style never does).
func (s *Ser) sepLine() line {
	if s.St.Canonical {
		return line{sep: true}
	}
	if s.wsBlank == 0 {
		s.wsBlank = 1
		if s.pick("wsblankdoc", 4) == 3 {
			s.wsBlank = 2
		}
	}
	if s.wsBlank != 2 {
		return line{sep: true}
	}
	ws := []string{"", "", " ", "  ", "    ", "     ", "        ", "\t", "\t\t", " \t", "   \t ", "\t  "}[s.pick("wsblank", 12)]
	if s.St.NoTabs {
		ws = strings.ReplaceAll(ws, "\t", "  ")
	}
	return line{s: ws, sep: true}
}

type sctx struct {
	bullets string // bullet characters of the enclosing items whose marker is on this block's first line
	first   bool   // the block is the first block of a list item (no indentation of its own)
	top     bool
	last    bool // last block of the document (at top level)
	noDash  bool // a '-' thematic break here would be read as a setext underline
}

func (s *Ser) indent(c sctx) string {
	if c.first {
		return ""
	}
	return strings.Repeat(" ", s.pick("indent", 4))
}

func maxRun(lines []string, ch byte) int {
	m := 0
	for _, l := range lines {
		n := 0
		for i := 0; i < len(l); i++ {
			if l[i] == ch {
				n++
				if n > m {
					m = n
				}
			} else {
				n = 0
			}
		}
	}
	return m
}

// closingRun: if the line, indented by extra more columns, could close a fenced
// block whose fence character is ch (at most three columns of indentation,
// then only fence characters, then only spaces and tabs), the length of its
// run; otherwise 0.
func closingRun(l string, extra int, ch byte) int {
	i := 0
	for i < len(l) && l[i] == ' ' {
		i++
	}
	if i+extra > 3 {
		return 0
	}
	n := 0
	for i < len(l) && l[i] == ch {
		i++
		n++
	}
	for i < len(l) && (l[i] == ' ' || l[i] == '\t') {
		i++
	}
	if i < len(l) {
		return 0
	}
	return n
}

func (s *Ser) block(b *Block, c sctx) []line {
	var out []line
	switch b.K {
	case Para, Setext:
		st := &inlState{}
		s.inl(st, b.Inl, '\n', 0, true)
		for i, l := range strings.Split(st.sb.String(), "\n") {
			out = append(out, line{s: l, lazy: i > 0 && b.K == Para})
		}
		if b.K == Setext {
			ch := "="
			if b.Level == 2 {
				ch = "-"
			}
			n := 5
			if !s.St.Canonical {
				n = 2 + s.pick("underlinelen", 6)
			}
			out = append(out, line{s: s.indent(sctx{}) + strings.Repeat(ch, n) + strings.Repeat(" ", s.pick("underlinesp", 3))})
		}
	case ATX:
		st := &inlState{heading: true}
		s.inl(st, b.Inl, '\n', 0, false)
		l := s.indent(c) + strings.Repeat("#", b.Level)
		if content := st.sb.String(); content != "" {
			l += strings.Repeat(" ", 1+s.pick("atxsp", 3)) + content
		}
		if s.pick("closing", 3) == 2 {
			l += strings.Repeat(" ", 1+s.pick("closingsp", 2)) + strings.Repeat("#", 1+s.pick("closinglen", 8)) + strings.Repeat(" ", s.pick("closingtrail", 3))
		}
		out = append(out, line{s: l})
	case HR:
		chars := []string{"-", "*", "_"}
		if c.top && c.first {
			chars = []string{"*", "-", "_"}
		}
		var ok []string
		for _, ch := range chars {
			if ch == "-" && c.noDash {
				continue
			}
			if !strings.Contains(c.bullets, ch) {
				ok = append(ok, ch)
			}
		}
		ch := ok[s.pick("hrchar", len(ok))]
		n := 3 + s.pick("hrlen", 4)
		sep := strings.Repeat(" ", s.pick("hrsep", 3))
		out = append(out, line{s: s.indent(c) + strings.TrimRight(strings.Repeat(ch+sep, n), " ") + strings.Repeat(" ", s.pick("hrtrail", 2))})
	case Fenced:
		ch := byte('`')
		if strings.Contains(b.InfoSrc, "`") || s.pick("fencechar", 2) == 1 {
			ch = '~'
		}
		ind := s.indent(c)
		n := 3
		if s.pick("minfence", 2) == 1 {
			// the shortest fence that no content line can close: only lines
			// that are closing fences as written (their own leading spaces plus
			// the opening fence's indentation come to at most three columns,
			// nothing but spaces and tabs after the run) count
			for _, l := range b.Lines {
				if m := closingRun(l, len(ind), ch); m >= n {
					n = m + 1
				}
			}
		} else if m := maxRun(b.Lines, ch); m >= n {
			n = m + 1
		}
		n += s.pick("fencelong", 3) / 2
		open := ind + strings.Repeat(string(ch), n)
		if b.InfoSrc != "" {
			open += strings.Repeat(" ", s.pick("infosp", 2)) + b.InfoSrc + strings.Repeat(" ", s.pick("infotrail", 2))
		}
		out = append(out, line{s: open})
		for _, l := range b.Lines {
			if l == "" && s.pick("emptycodeline", 2) == 0 {
				out = append(out, line{s: ""})
			} else {
				out = append(out, line{s: ind + l})
			}
		}
		if c.top && c.last && (len(b.Lines) == 0 || strings.TrimSpace(b.Lines[len(b.Lines)-1]) != "") && s.pick("unclosed", 4) == 3 {
			break // an unclosed fence as the last block of the document
		}
		out = append(out, line{s: s.indent(sctx{}) + strings.Repeat(string(ch), n+s.pick("closelong", 3)/2) + strings.Repeat(" ", s.pick("closetrail", 2))})
	case Indented:
		for _, l := range b.Lines {
			if l == "" {
				n := s.pick("blankcode", 5)
				out = append(out, line{s: strings.Repeat(" ", n), ind: n})
			} else {
				out = append(out, line{s: "    " + l, ind: 4})
			}
		}
	case HTML:
		for _, l := range b.Lines {
			out = append(out, line{s: l})
		}
	case RefDef:
		l := s.indent(c) + "[" + b.Label + "]:"
		ds, sep := s.destStr(b.Dest), []string{" ", "  ", "\n", "\n "}[s.pick("defsep", 4)]
		if !lineStartSafeDest(ds) {
			sep = " "
		}
		l += sep + ds
		if b.Title != nil {
			t := *b.Title
			if s.St.Canonical {
				l += ` "` + guardTitleLines(t, func(x string) string {
					return strings.ReplaceAll(strings.NewReplacer(`\`, `\\`, `"`, `\"`).Replace(x), "&", "&amp;")
				}) + `"`
			} else {
				l += []string{" ", "  ", "\n", "\n  "}[s.pick("deftsep", 4)] + s.titleStr(t)
			}
		}
		for _, x := range strings.Split(l, "\n") {
			out = append(out, line{s: x})
		}
	case Quote:
		inner := s.blocks(b.Kids, false, sctx{})
		ind := s.indent(c)
		for i, l := range inner {
			switch {
			case l.lazy && i > 0 && !s.St.NoLazy && s.pick("lazy", 8) == 7:
				out = append(out, line{s: l.s, lazy: true})
			case l.sep && l.s != "":
				// white space after the marker: still a blank line inside the quote
				out = append(out, line{s: ind + ">" + l.s})
			case l.s == "":
				out = append(out, line{s: ind + ">" + strings.Repeat(" ", s.pick("emptyquotesp", 2))})
			// at the top level the column of '>' is known: a tab after it advances to
			// column 4; one of its columns is the marker's optional space, the rest
			// stands for leading structural spaces of the line
			case c.top && !s.St.NoTabs && !s.St.Canonical && l.ind >= tabRest(len(ind)) && l.ind <= len(l.s) && s.pick("quotetab", 3) == 2:
				out = append(out, line{s: ind + ">\t" + l.s[tabRest(len(ind)):]})
			// (a line that keeps its quote marker is not lazy for the containers
			// outside: without their markers it would open a new block quote)
			case l.s[0] != ' ' && l.s[0] != '\t' && s.pick("quotenosp", 6) == 5:
				out = append(out, line{s: ind + ">" + l.s})
			default:
				out = append(out, line{s: ind + "> " + l.s})
			}
		}
	case List:
		bullet := []string{"-", "+", "*"}[s.pick("bullet", 3)]
		delim := []string{".", ")"}[s.pick("delim", 2)]
		ind := s.indent(c)
		// which gaps get a blank line in a loose list: all gaps between the blocks
		// of an item, and a non-empty subset of the gaps between items (all of
		// them if no item has two blocks)
		multiBlock := false
		for _, it := range b.Items {
			if len(it) > 1 {
				multiBlock = true
			}
		}
		for j, it := range b.Items {
			marker := bullet
			if b.Ordered {
				marker = fmt.Sprintf("%d%s", b.Start+j, delim)
			}
			n := 1
			if !s.St.Canonical {
				n = 1 + s.pick("markersp", 4)
			}
			w := len(ind) + len(marker) + n
			bl := ""
			if !b.Ordered {
				bl = bullet
			}
			inner := s.blocks(it, b.Tight, sctx{bullets: c.bullets + bl, first: true})
			if !b.Tight && j > 0 && (!multiBlock || s.St.Canonical || s.pick("itemgap", 3) != 2) {
				out = append(out, s.sepLine())
			}
			if len(it) == 0 {
				// an empty item: the marker, alone on its line (spaces may follow)
				out = append(out, line{s: ind + marker + strings.Repeat(" ", s.pick("emptyitemsp", 3))})
				continue
			}
			// an item may begin with a blank line: the marker stands alone on
			// its line and the content follows at marker width + 1, however
			// many spaces follow the marker (an empty item cannot interrupt a
			// paragraph, so not for the first item of a list that follows a
			// block of a tight sequence without a blank line)
			// (nor where the bare marker would complete a thematic break with
			// the enclosing items' bullets on the same line: "* * *")
			if !s.St.Canonical && !(j == 0 && c.noDash) && !(j == 0 && !b.Ordered && strings.Count(c.bullets, bullet) >= 2) &&
				len(inner) > 0 && inner[0].s != "" && s.pick("blankstart", 6) == 5 {
				w = len(ind) + len(marker) + 1
				out = append(out, line{s: ind + marker + strings.Repeat(" ", s.pick("blankstartsp", 3))})
				inner = append([]line{{s: ""}}, inner...)
			}
			for i, l := range inner {
				switch {
				case i == 0 && l.s == "":
					// the marker line was written above
				case i == 0:
					out = append(out, line{s: ind + marker + strings.Repeat(" ", n) + l.s})
				case l.sep:
					// a separator keeps its own white space and gets no indentation:
					// a blank line belongs to the item whatever its width
					out = append(out, l)
				case l.s == "":
					out = append(out, line{s: ""})
				case l.lazy && !s.St.NoLazy && s.pick("lazyitem", 10) == 9:
					out = append(out, line{s: l.s, lazy: true})
				default:
					out = append(out, line{s: strings.Repeat(" ", w) + l.s, lazy: l.lazy, ind: w + l.ind})
				}
			}
		}
	}
	return out
}

func (s *Ser) blocks(bs []*Block, tight bool, c sctx) []line {
	var out []line
	for i, b := range bs {
		if i > 0 && !tight {
			out = append(out, s.sepLine())
			if s.pick("twoblank", 6) == 5 {
				out = append(out, s.sepLine())
			}
		}
		bc := sctx{top: c.top, last: c.top && i == len(bs)-1}
		if i == 0 {
			bc.bullets, bc.first = c.bullets, c.first
		} else if bs[i-1].K == List {
			// indentation after a list would make the block part of its last item
			bc.first = true
		}
		if i > 0 && tight {
			bc.noDash = true
		}
		out = append(out, s.block(b, bc)...)
	}
	return out
}

// tabify spells runs of four structural spaces at column 0 as tabs.
func (s *Ser) tabify(l line) string {
	if s.St.NoTabs || s.St.Canonical || l.ind < 4 || s.pick("tab", 4) != 3 {
		return l.s
	}
	n := 4
	for n+4 <= l.ind && s.pick("tabmore", 2) == 0 {
		n += 4
	}
	return strings.Repeat("\t", n/4) + l.s[n:]
}

// Serialize renders the document as CommonMark source. It returns the source
// and the extra blocks it had to insert (none normally).
func (s *Ser) Serialize(doc []*Block) string {
	ls := s.blocks(doc, false, sctx{top: true, first: true})
	nl := []string{"\n", "\r\n", "\r", "\n"}[s.pick("lineending", 4)]
	var sb strings.Builder
	for i, l := range ls {
		sb.WriteString(s.tabify(l))
		if i < len(ls)-1 || s.St.Canonical || s.pick("finalnl", 3) != 2 {
			sb.WriteString(nl)
		}
	}
	return sb.String()
}

var _ = unicode.IsLetter

// tabRest: a tab directly after a '>' that sits at column k reaches the next
// tab stop; one of its columns is the quote marker's optional space, the rest
// stand for this many spaces.
func tabRest(k int) int {
	w := 4 - (k+1)%4 // width of the tab that starts at column k+1
	return w - 1
}
