package model

import (
	"fmt"
	"regexp"
	"strings"
	"unicode"

	"pgregory.net/rapid"
)

// Chooser abstracts the source of choices: rapid draws for generated cases, or
// the constant 0 for the canonical style (every option list puts the canonical
// spelling first).
type Chooser interface {
	Pick(label string, n int) int
}

type RapidChooser struct{ T *rapid.T }

func (c RapidChooser) Pick(label string, n int) int {
	if n <= 1 {
		return 0
	}
	return rapid.IntRange(0, n-1).Draw(c.T, label)
}

type Canonical struct{}

func (Canonical) Pick(string, int) int { return 0 }

// PinnedExcept is the canonical chooser with a few choices left free: every
// label not listed picks 0 (the canonical spelling), the listed ones are drawn.
type PinnedExcept struct {
	T    *rapid.T
	Free map[string]bool
}

func (c PinnedExcept) Pick(label string, n int) int {
	if n <= 1 || !c.Free[label] {
		return 0
	}
	return rapid.IntRange(0, n-1).Draw(c.T, label)
}

// Size bounds the generated documents.
type Size struct {
	Depth     int // container nesting
	MaxBlocks int // per container
	MaxInl    int // inlines per run
	InlDepth  int
}

var Small = Size{Depth: 3, MaxBlocks: 4, MaxInl: 5, InlDepth: 2}
var Large = Size{Depth: 5, MaxBlocks: 7, MaxInl: 8, InlDepth: 3}

// Restrict switches constructs off (used for C20's supported construct set and
// for exclusion-by-finding).
type Restrict struct {
	NoRaw, NoHTMLBlocks, NoMultiLineInContainer, PlainTitles, PlainDests, NoImages, NoSetextMulti, NoEmptyItems bool
	// NoNestedInTight: items of tight lists hold a single block (no nested list)
	NoNestedInTight bool
	// TightParaOnly: items of tight lists are single paragraphs
	TightParaOnly bool
	// FormatSafeText: text avoids what the formatter does not re-escape (r2)
	FormatSafeText bool
}

type Gen struct {
	C      Chooser
	Sz     Size
	R      Restrict
	Labels []string
	nlabel int
	// fwd: labels that are used before their definition, which Doc appends at
	// the end of the document
	fwd map[string]bool
}

var words = []string{"a", "b", "foo", "bar", "baz", "Qux", "x1", "é", "猫", "ß", "word", "I", "42", "7", "Z"}

const puncts = "!\"#$%&'()*+,-./:;<=>?@[\\]^_`{|}~"

func (g *Gen) pick(label string, n int) int { return g.C.Pick(label, n) }

func (g *Gen) word() string { return words[g.pick("word", len(words))] }

// syntaxWords are literal text that looks like markup: the serializer has to
// escape them character by character, and everything downstream (parser,
// renderer, formatter) has to keep them literal.
var syntaxWords = []string{"&amp;", "&#35;", "&copy;", "&x;", "&#x41;", "<b>", "</i>", "*a*", "_b_", "**s**", "`c`", "[x](y)", "[r]", "![i](u)", "1.", "2)", "#", "##", "<!--", "-->", "http://x.y", "<http://a.b>", "a@b.c", "\\", "\\*", "~~~", "---", "===", ">", "+", "-", "***", "&amp", "&#;", "<a@b.c>", "]", "](", "[", "``", "|", "a_b_c", "a*b*c", "__", "'t'", "\"q\""}

// text: 1-4 atoms (words or single punctuation characters) mostly separated by
// single spaces.
func (g *Gen) text() string {
	n := 1 + g.pick("ntext", 4)
	var sb strings.Builder
	for i := 0; i < n; i++ {
		if i > 0 && g.pick("sp", 4) != 0 {
			sb.WriteString(" ")
		}
		if k := g.pick("punct?", 7); k == 6 {
			w := syntaxWords[g.pick("syntaxword", len(syntaxWords))]
			if g.R.FormatSafeText && strings.ContainsAny(w, "+!") {
				w = "w"
			}
			sb.WriteString(w)
		} else if k < 2 {
			c := puncts[g.pick("punct", len(puncts))]
			if g.R.FormatSafeText && (c == '+' || c == '!') {
				c = ','
			}
			sb.WriteByte(c)
		} else {
			sb.WriteString(g.word())
		}
	}
	t := sb.String()
	if g.R.FormatSafeText {
		// digits followed by '.' or ')' could end up first on a line
		t = safeDigits.ReplaceAllString(t, "${1} ${2}")
	}
	return t
}

var safeDigits = regexp.MustCompile(`([0-9])([.)])`)

func (g *Gen) title(multi bool) *string {
	if g.pick("title?", 2) == 0 {
		return nil
	}
	var t string
	if g.R.PlainTitles {
		t = g.word() + " " + g.word()
	} else {
		t = g.text()
	}
	if multi && g.pick("titleml", 4) == 0 {
		if g.R.PlainTitles {
			t = strings.TrimRight(t, " ") + "\n" + g.word() + " " + g.word()
		} else if g.pick("titleline2", 2) == 0 {
			t = strings.TrimRight(t, " ") + "\n" + g.word() + " " + g.text()
		} else {
			// the later line may begin with anything, also with what would start a
			// block if it were written bare (the serializer escapes it)
			t = strings.TrimRight(t, " ") + "\n" + strings.TrimLeft(g.text(), " ")
		}
	}
	t = strings.TrimSpace(t)
	return &t
}

var dests = []string{"/u", "http://x.y/z", "a/b", "#frag", "/p?q=1&r=2", "/my uri", "/é", "x%20y", "/a(b)c", "u", "", "/a_b*c", "/x\\y", "/q\"r", "/caf\u00e9", "/a|b|", "/100%", "/x%4", "/%C3%A9", "/\U00010100"}

// plainDests: what the formatter can write back (no space, angle bracket or
// parenthesis); characters that NormalizeURI has to encode are included, also
// as the last character of the destination.
var plainDests = []string{"/u", "http://x.y/z", "a/b", "#frag", "/p?q=1", "u", "/a_b", "/é", "/caf\u00e9", "/a|b|", "x%20y", "/p?q=1&r=2", "/100%", "/x%4", "/q\"r", "/x\\y", "/%C3%A9"}

// destUnits are the pieces of composed destinations: safe runs, characters that
// NormalizeURI has to encode (ASCII and non-ASCII), complete, truncated and
// malformed percent escapes, entity-looking and markup-looking characters. A
// destination made of two to four of them puts every kind of piece before and
// after every other kind (an escape after a character to encode, an encoded
// character last, ...), which the fixed pool above cannot. plainDestUnits is the
// subset the formatter can write back.
var plainDestUnits = []string{"/", "a", "b.c", "?q=1", "&r=2", "#f", "é", "ß", "\U00010100", "\ufffd", "%20", "%C3%A9", "%4", "%", "%zz", "%e", "|", "\"", "\\", "*", "_", "~", "'", "+", ":", "@", "=", "$", ",", ";", "!", "[", "]", "^", "`", "{", " ", "(b)", ">", "<"}
var destUnits = append(append([]string{}, plainDestUnits...), "(", ")")

func (g *Gen) dest() string {
	pool, units := dests, destUnits
	if g.R.PlainDests {
		pool, units = plainDests, plainDestUnits
	}
	if g.pick("destkind", 2) == 0 {
		return pool[g.pick("dest", len(pool))]
	}
	// parentheses are free: balanced, unbalanced, or balanced in number only
	// with a ")" before its "(" (the serializer escapes them, or uses angle
	// brackets, whenever a bare spelling would not be a balanced destination)
	var sb strings.Builder
	for n := 2 + g.pick("destn", 3); n > 0; n-- {
		sb.WriteString(units[g.pick("destunit", len(units))])
	}
	return sb.String()
}

var autolinks = []string{"http://a.b/c", "mailto:x@y.z", "foo@bar.example.com", "ab:c?d=e&f", "https://e.x/a%20b", "x+y@z.w", "scheme:é\"q"}
var rawTags = []string{"<b>", "</b>", "<span class=\"x\">", "<br/>", "<!-- c -->", "<?php x ?>", "<!DOCTYPE x>", "<![CDATA[x]]>", "<i a='1'\nb>", "<u href=\"u\"\ntitle=t>", "<x-y z>"}

type ictx struct {
	inLink  bool
	multi   bool // breaks allowed
	heading bool
	cont    bool // inside a container
}

func startsAlnum(s string) bool {
	for _, r := range s {
		return unicode.IsLetter(r) || unicode.IsDigit(r)
	}
	return false
}

func endsAlnum(s string) bool {
	rs := []rune(s)
	if len(rs) == 0 {
		return false
	}
	r := rs[len(rs)-1]
	return unicode.IsLetter(r) || unicode.IsDigit(r)
}

func (g *Gen) inlines(depth int, c ictx) []*Inline {
	n := 1 + g.pick("ninl", g.Sz.MaxInl)
	var out []*Inline
	for i := 0; i < n; i++ {
		k := g.pick("inlkind", 15)
		if depth <= 0 && k >= 5 && k <= 9 {
			k = 0
		}
		var in *Inline
		switch k {
		case 0, 1, 2, 3:
			in = &Inline{K: Text, S: g.text()}
		case 4:
			s := g.text()
			switch g.pick("codevar", 6) {
			case 0:
				s = "`" + s
			case 1:
				s += " ``x"
			case 2:
				s = " " + s + " "
			case 3:
				s = s + "\\"
			}
			// "[`]: x`](u)" at a paragraph start would be read as a definition
			s = strings.ReplaceAll(s, "]:", "] :")
			in = &Inline{K: Code, S: s}
		case 5, 6:
			kind := Em
			if k == 6 {
				kind = Strong
			}
			kids := append([]*Inline{{K: Text, S: g.word()}}, g.inlines(depth-1, c)...)
			kids = append(kids, &Inline{K: Text, S: g.word()})
			in = &Inline{K: kind, Kids: g.fix(kids, c)}
		case 7, 8:
			if c.inLink {
				in = &Inline{K: Text, S: g.text()}
				break
			}
			cc := c
			cc.inLink = true
			// (the formatter writes a link's title anew, so a title over two lines
			// is inside the canonical set in containers as well; an image is copied
			// from the source)
			in = &Inline{K: Link, Kids: g.inlines(depth-1, cc), Dest: g.dest(), Title: g.title(c.multi)}
			if len(g.Labels) > 0 && g.pick("ref?", 2) == 0 {
				g.makeRef(in)
			}
		case 9:
			if g.R.NoImages {
				in = &Inline{K: Text, S: g.text()}
				break
			}
			in = &Inline{K: Image, Kids: g.inlines(depth-1, c), Dest: g.dest(), Title: g.title(c.multi && !(c.cont && g.R.NoMultiLineInContainer))}
			if len(g.Labels) > 0 && g.pick("ref?", 3) == 0 {
				g.makeRef(in)
			}
		case 10:
			if c.inLink {
				// an autolink is a link; whether link text may hold one is not fixed by the spec text
				in = &Inline{K: Text, S: g.text()}
				break
			}
			in = &Inline{K: Autolink, S: autolinks[g.pick("autolink", len(autolinks))]}
		case 11:
			if g.R.NoRaw {
				in = &Inline{K: Text, S: g.text()}
				break
			}
			s := rawTags[g.pick("rawtag", len(rawTags))]
			if !c.multi || (c.cont && g.R.NoMultiLineInContainer) {
				s = strings.ReplaceAll(s, "\n", " ")
			}
			in = &Inline{K: RawTag, S: s}
		case 12, 13:
			if c.multi {
				in = &Inline{K: Soft}
			} else {
				in = &Inline{K: Text, S: g.text()}
			}
		case 14:
			if c.multi {
				in = &Inline{K: Hard}
			} else {
				in = &Inline{K: Text, S: g.text()}
			}
		}
		out = append(out, in)
	}
	return g.fix(out, c)
}

func (g *Gen) makeRef(in *Inline) {
	in.RefLabel = g.Labels[g.pick("label", len(g.Labels))]
	in.RefStyle = g.pick("refstyle", 3)
	in.Dest, in.Title = "", nil
	if in.RefStyle > 0 {
		in.Kids = []*Inline{{K: Text, S: in.RefLabel}}
	}
	// the use may spell the label in another case
	if g.pick("labelcase", 3) == 0 {
		in.RefLabel = strings.ToUpper(in.RefLabel)
		if in.RefStyle > 0 {
			in.Kids = []*Inline{{K: Text, S: in.RefLabel}}
		}
	}
}

func isBreak(in *Inline) bool { return in.K == Soft || in.K == Hard }
func isEmph(in *Inline) bool  { return in.K == Em || in.K == Strong }

// fix enforces the structural rules that make the serialization unambiguous
// (it edits the abstract document, before the expected HTML is computed).
func (g *Gen) fix(in []*Inline, c ictx) []*Inline {
	// merge adjacent texts, drop breaks at edges / doubled, keep raw HTML off line starts
	var out []*Inline
	for _, x := range in {
		if x.K == Text && len(out) > 0 && out[len(out)-1].K == Text {
			sep := " "
			out[len(out)-1] = &Inline{K: Text, S: out[len(out)-1].S + sep + x.S}
			continue
		}
		if isBreak(x) && (len(out) == 0 || isBreak(out[len(out)-1])) {
			continue
		}
		if x.K == RawTag && (len(out) == 0 || isBreak(out[len(out)-1])) {
			out = append(out, &Inline{K: Text, S: "w "})
		}
		if (isEmph(x) && len(out) > 0 && isEmph(out[len(out)-1])) || (x.K == Code && len(out) > 0 && out[len(out)-1].K == Code) {
			out = append(out, &Inline{K: Text, S: " "})
		}
		out = append(out, x)
	}
	for len(out) > 0 && isBreak(out[len(out)-1]) {
		out = out[:len(out)-1]
	}
	// spacing around emphasis: an alphanumeric neighbour would make the run intraword
	for i, x := range out {
		if !isEmph(x) {
			continue
		}
		if i > 0 && out[i-1].K == Text && endsAlnum(out[i-1].S) {
			out[i-1].S += " "
		}
		if i+1 < len(out) && out[i+1].K == Text && startsAlnum(out[i+1].S) {
			out[i+1].S = " " + out[i+1].S
		}
	}
	// no trailing / leading spaces next to breaks (the spec strips them; see KF "soft break spaces")
	for i, x := range out {
		if x.K != Text {
			continue
		}
		if i+1 < len(out) && isBreak(out[i+1]) {
			x.S = strings.TrimRight(x.S, " ")
		}
		if i > 0 && isBreak(out[i-1]) {
			x.S = strings.TrimLeft(x.S, " ")
		}
	}
	// a text that became empty next to a break would leave an emphasis run at a
	// line edge, which is fine, but empty texts themselves go
	var res []*Inline
	for _, x := range out {
		if x.K == Text && x.S == "" {
			continue
		}
		res = append(res, x)
	}
	// reference styles that need a following context: shortcut/collapsed must not
	// be followed by '[' or '(' or ':'
	for i, x := range res {
		if (x.K == Link || x.K == Image) && x.RefLabel != "" && x.RefStyle > 0 {
			if i+1 < len(res) {
				nx := res[i+1]
				if nx.K != Text || !strings.HasPrefix(nx.S, " ") {
					x.RefStyle = 0
				}
			}
		}
	}
	// removing an empty text may have made two breaks or two emphasis adjacent
	var res2 []*Inline
	for _, x := range res {
		if isBreak(x) && (len(res2) == 0 || isBreak(res2[len(res2)-1])) {
			continue
		}
		if (isEmph(x) && len(res2) > 0 && isEmph(res2[len(res2)-1])) || (x.K == Code && len(res2) > 0 && res2[len(res2)-1].K == Code) {
			res2 = append(res2, &Inline{K: Text, S: " "})
		}
		if x.K == RawTag && (len(res2) == 0 || isBreak(res2[len(res2)-1])) {
			res2 = append(res2, &Inline{K: Text, S: "w "})
		}
		res2 = append(res2, x)
	}
	for len(res2) > 0 && isBreak(res2[len(res2)-1]) {
		res2 = res2[:len(res2)-1]
	}
	if len(res2) == 0 {
		res2 = []*Inline{{K: Text, S: "z"}}
	}
	return res2
}

// trimEdges removes leading/trailing spaces of the texts at the outer edges of
// a block's inline content.
func trimEdges(in []*Inline) []*Inline {
	if len(in) > 0 && in[0].K == Text {
		in[0].S = strings.TrimLeft(in[0].S, " ")
		if in[0].S == "" {
			in = in[1:]
		}
	}
	if n := len(in); n > 0 && in[n-1].K == Text {
		in[n-1].S = strings.TrimRight(in[n-1].S, " ")
		if in[n-1].S == "" {
			in = in[:n-1]
		}
	}
	for len(in) > 0 && isBreak(in[0]) {
		in = in[1:]
	}
	for len(in) > 0 && isBreak(in[len(in)-1]) {
		in = in[:len(in)-1]
	}
	if len(in) == 0 {
		in = []*Inline{{K: Text, S: "z"}}
	}
	if in[0].K == RawTag {
		in = append([]*Inline{{K: Text, S: "w "}}, in...)
	}
	return in
}

func (g *Gen) blockInlines(c ictx) []*Inline {
	return trimEdges(g.inlines(g.Sz.InlDepth, c))
}

var codeWords = []string{"```  ", "~~~ ", " ```", "  ~~~~  ", "``` \t", "   ```", "    ```", "     ~~~", "  ````", "   ~~~  ", "`````", "~~~~", "    ~~~~", "x", "foo", "- a", "> q", "<b>", "&amp;", "*x*", "    deep", "```", "~~~", "````", "# h", "1. n", "\\", "`", "[a](b)", "  two", "\ttab", "---", "===", "a  ", "<div>", "```go", "~~~~ x"}

func (g *Gen) codeLines(allowBlankEdges bool) []string {
	n := 1 + g.pick("ncode", 4)
	var ls []string
	for i := 0; i < n; i++ {
		var l string
		switch g.pick("codeline", 5) {
		case 0:
			l = g.text()
		case 1:
			if i > 0 && i < n-1 || allowBlankEdges {
				l = ""
			} else {
				l = "x"
			}
		default:
			l = codeWords[g.pick("codeword", len(codeWords))]
			if g.pick("codemore", 3) == 0 {
				l += " " + g.text()
			}
		}
		ls = append(ls, l)
	}
	return ls
}

type infoSpelling struct{ src, val string }

var infos = []infoSpelling{{"", ""}, {"go", "go"}, {"c++ extra words", "c++ extra words"}, {"a\\*b", "a*b"}, {"x&amp;y", "x&y"}, {"é", "é"}, {"&#x6a;s", "js"}, {"a\"b", "a\"b"}, {"<t>", "<t>"},
	// spellings whose decoded form, written back bare, would mean something else:
	// a reference to a backtick, to white space, to an ampersand before a
	// reference name, an escaped backslash before an escapable character
	{"a&#96;b", "a`b"}, {"&amp;lt;", "&lt;"}, {"x\\&amp;", "x&amp;"}, {"a&#32;b", "a b"}, {"\\\\*", "\\*"}, {"&#38;#35;", "&#35;"}}

var htmlBlocks6 = [][]string{{"<div>", "hi *x*", "</div>"}, {"<table>", "<tr><td>x</td></tr>", "</table>"}, {"</div>"}, {"<p class=\"c\">t"}, {"<DIV ID=x>", "y"}, {"<center>a</center>"}, {"<hr/>"}}
var htmlBlocks7 = [][]string{{"<span a=\"b\">", "t"}, {"</ins>"}, {"<my-tag x='1' y>", "z *q*"}}
var htmlBlocks15 = [][]string{{"<!-- c", "", "d -->"}, {"<!-- one -->"}, {"<script>", "", "x", "</script>"}, {"<style>", "a {}", "", "</style>"}, {"<textarea>", "", "</textarea>"}, {"<?php", "", "?>"}, {"<!DOCTYPE html>"}, {"<![CDATA[", "", "]]>"}, {"<!X", "", ">"}}


// rawsOf extracts the tag-like substrings of html block lines (everything from
// '<' to the matching '>' on the same line, or to the end of the line).
func rawsOf(lines []string) []string {
	var out []string
	for _, l := range lines {
		for i := 0; i < len(l); i++ {
			if l[i] != '<' {
				continue
			}
			j := strings.IndexByte(l[i:], '>')
			if j < 0 {
				out = append(out, l[i:])
				break
			}
			out = append(out, l[i:i+j+1])
			i += j
		}
	}
	return out
}

type bctx struct {
	depth     int
	inList    bool // directly inside a list item
	firstItem bool // first block of a list item
	tight     bool // inside a tight list item
	cont      bool // inside any container
}

func (g *Gen) refdef() *Block {
	if len(g.Labels) > 0 && g.pick("duplabel", 5) == 0 {
		// a competing definition of a label that is already defined earlier in
		// the document (possibly in another case): the first one wins, so this
		// one changes nothing
		lbl := g.Labels[g.pick("duplabelpick", len(g.Labels))]
		if !g.fwd[lbl] {
			if g.pick("dupcase", 2) == 0 {
				lbl = strings.ToUpper(lbl)
			}
			return &Block{K: RefDef, Label: lbl, Dest: g.dest(), Title: g.title(true)}
		}
	}
	g.nlabel++
	lbl := fmt.Sprintf("ref%d", g.nlabel)
	if g.pick("lblspace", 3) == 0 {
		lbl = fmt.Sprintf("my ref %d", g.nlabel)
	}
	b := &Block{K: RefDef, Label: lbl, Dest: g.dest(), Title: g.title(true)}
	g.Labels = append(g.Labels, lbl)
	return b
}

func (g *Gen) leafBlock(k int, c bctx, prev *Block) *Block {
	ic := ictx{multi: !(c.cont && g.R.NoMultiLineInContainer), cont: c.cont}
	switch k {
	case 0, 1, 2, 3:
		return &Block{K: Para, Inl: g.blockInlines(ic)}
	case 4:
		ic.multi, ic.heading = false, true
		b := &Block{K: ATX, Level: 1 + g.pick("level", 6), Inl: g.blockInlines(ic)}
		if g.pick("emptyheading", 12) == 0 {
			b.Inl = nil
		}
		return b
	case 5:
		ic.multi = ic.multi && !g.R.NoSetextMulti
		return &Block{K: Setext, Level: 1 + g.pick("slevel", 2), Inl: g.blockInlines(ic)}
	case 6:
		return &Block{K: HR}
	case 7, 8:
		b := &Block{K: Fenced, Lines: g.codeLines(true)}
		inf := infos[g.pick("info", len(infos))]
		b.Info, b.InfoSrc = inf.val, inf.src
		if g.pick("emptycode", 6) == 0 {
			b.Lines = nil
		}
		return b
	case 9:
		// an indented code block cannot start a list item, nor follow a list or
		// another indented code block
		if c.firstItem || (prev != nil && (prev.K == List || prev.K == Indented)) {
			return &Block{K: HR}
		}
		ls := g.codeLines(false)
		for len(ls) > 0 && strings.TrimSpace(ls[0]) == "" {
			ls = ls[1:]
		}
		for len(ls) > 0 && strings.TrimSpace(ls[len(ls)-1]) == "" {
			ls = ls[:len(ls)-1]
		}
		if len(ls) == 0 {
			ls = []string{"x"}
		}
		for i, l := range ls {
			// a whitespace-only interior line is spelled as a blank line
			if strings.TrimSpace(l) == "" {
				ls[i] = ""
			}
			ls[i] = strings.ReplaceAll(ls[i], "\t", " ")
		}
		// the first line carries no extra indentation of its own in a place
		// where that would be ambiguous
		ls[0] = strings.TrimLeft(ls[0], " ")
		if ls[0] == "" {
			ls[0] = "x"
		}
		return &Block{K: Indented, Lines: ls}
	case 10:
		if g.R.NoHTMLBlocks {
			return &Block{K: Para, Inl: g.blockInlines(ic)}
		}
		var lines []string
		kind := 6
		switch g.pick("htmlkind", 3) {
		case 0:
			lines = htmlBlocks6[g.pick("html6", len(htmlBlocks6))]
		case 1:
			lines = htmlBlocks7[g.pick("html7", len(htmlBlocks7))]
			kind = 7
		default:
			lines = htmlBlocks15[g.pick("html15", len(htmlBlocks15))]
			kind = 1
		}
		return &Block{K: HTML, Lines: append([]string(nil), lines...), Raws: rawsOf(lines), HKind: kind}
	default:
		return g.refdef()
	}
}

func (g *Gen) blocks(c bctx, n int) []*Block {
	var out []*Block
	for i := 0; i < n; i++ {
		var prev *Block
		if len(out) > 0 {
			prev = out[len(out)-1]
		}
		cc := c
		cc.firstItem = c.firstItem && i == 0
		k := g.pick("blockkind", 17)
		if c.depth <= 0 && k >= 12 {
			k = g.pick("leafkind", 12)
		}
		var b *Block
		switch {
		case k <= 10:
			b = g.leafBlock(k, cc, prev)
		case k == 11:
			// reference definitions are not placed directly in list items
			if c.inList {
				b = g.leafBlock(0, cc, prev)
			} else {
				b = g.refdef()
			}
		case k <= 13:
			b = &Block{K: Quote, Kids: g.blocks(bctx{depth: c.depth - 1, cont: true}, 1+g.pick("nquote", g.Sz.MaxBlocks))}
		default:
			b = g.list(c)
			// adjacent sibling lists must be of different types (or they would merge)
			if prev != nil && prev.K == List && prev.Ordered == b.Ordered {
				b.Ordered = !b.Ordered
				b.Start = 1
			}
		}
		out = append(out, b)
	}
	return out
}

func (g *Gen) list(c bctx) *Block {
	b := &Block{K: List, Ordered: g.pick("ordered", 2) == 0, Start: 1, Tight: g.pick("tight", 2) == 0}
	if b.Ordered && g.pick("start?", 2) == 0 {
		b.Start = []int{0, 2, 7, 10, 123456789, 42, 999999990, 3}[g.pick("start", 8)]
	}
	ni := 1 + g.pick("nitems", 3)
	for j := 0; j < ni; j++ {
		var it []*Block
		// an item after the first may be empty (a marker and nothing else; the
		// first is not, because an empty item cannot interrupt a paragraph and a
		// bare bullet next to the enclosing items' bullets could complete a
		// thematic break)
		if j > 0 && !g.R.NoEmptyItems && g.pick("emptyitem", 10) == 9 {
			b.Items = append(b.Items, nil)
			continue
		}
		if b.Tight {
			var first *Block
			tf := g.pick("tightfirst", 7)
			if g.R.TightParaOnly {
				tf = 5
			}
			if tf == 6 && (c.depth <= 1 || g.R.NoNestedInTight) {
				tf = 5
			}
			switch tf {
			case 0:
				first = g.leafBlock(4, bctx{cont: true}, nil) // ATX
			case 1:
				first = g.leafBlock(7, bctx{cont: true}, nil) // fenced
			case 6:
				// a quote as the first block of the item
				first = &Block{K: Quote, Kids: g.blocks(bctx{depth: 0, cont: true}, 1+g.pick("ntq", 2))}
			default:
				first = g.leafBlock(0, bctx{cont: true}, nil)
			}
			it = []*Block{first}
			if !g.R.TightParaOnly && !g.R.NoNestedInTight {
				it = g.tightSequence(it, c)
			}
			if c.depth > 1 && !g.R.NoNestedInTight && endsOpenPara(it[len(it)-1]) == (it[len(it)-1].K == Para) && it[len(it)-1].K != Quote && it[len(it)-1].K != HR && g.pick("nested", 3) == 0 {
				sub := g.list(bctx{depth: c.depth - 1, cont: true})
				// a nested list directly after a paragraph line can interrupt it
				// only as a bullet list or an ordered list starting at 1
				if sub.Ordered {
					sub.Start = 1
				}
				it = append(it, sub)
			}
		} else {
			it = g.blocks(bctx{depth: c.depth - 1, inList: true, firstItem: true, cont: true}, 1+g.pick("nitemblocks", 2))
		}
		b.Items = append(b.Items, it)
	}
	if !b.Tight && ni == 1 && len(b.Items[0]) <= 1 {
		b.Tight = true // a single item with a single block cannot be loose
	}
	return b
}

// endsOpenPara reports whether the block's last line is paragraph text, so
// that a following line of plain text would be a (lazy) continuation of it.
func endsOpenPara(b *Block) bool {
	switch b.K {
	case Para:
		return true
	case Quote:
		return len(b.Kids) > 0 && endsOpenPara(b.Kids[len(b.Kids)-1])
	case List:
		if len(b.Items) == 0 {
			return false
		}
		last := b.Items[len(b.Items)-1]
		return len(last) > 0 && endsOpenPara(last[len(last)-1])
	}
	return false
}

// tightSequence extends the single block of a tight list item to a sequence of
// up to four blocks written without blank lines between them. The next block
// is chosen so that it is recognised without a blank line: after a block whose
// last line is paragraph text only blocks that can interrupt a paragraph
// follow (ATX heading, fenced code, thematic break, block quote); a paragraph
// only follows a block that is closed by its own last line.
func (g *Gen) tightSequence(it []*Block, c bctx) []*Block {
	n := g.pick("tightextra", 6) // 0: none (most common shapes keep a single block)
	if n > 3 {
		n = 0
	}
	for i := 0; i < n; i++ {
		prev := it[len(it)-1]
		var kinds []int
		if endsOpenPara(prev) {
			kinds = []int{4, 7, 6, 12}
		} else if prev.K == Quote || prev.K == List {
			// a quote or list that does not end in a paragraph: anything that
			// is not continuation-like
			kinds = []int{4, 7, 6, 12}
		} else {
			kinds = []int{0, 4, 7, 6, 12}
		}
		k := kinds[g.pick("tightnext", len(kinds))]
		if k == 12 && prev.K == Quote {
			k = 4 // two quotes without a blank line between them are one quote
		}
		var b *Block
		if k == 12 {
			if c.depth <= 1 {
				k = 4
			} else {
				b = &Block{K: Quote, Kids: g.blocks(bctx{depth: 0, cont: true}, 1+g.pick("ntq", 2))}
			}
		}
		if b == nil {
			b = g.leafBlock(k, bctx{cont: true}, prev)
		}
		it = append(it, b)
	}
	return it
}

// Doc generates a document.
func (g *Gen) Doc() []*Block {
	// one document in three uses labels whose definitions follow at the end
	var fwd []string
	if g.pick("fwdlabels", 3) == 0 {
		g.fwd = map[string]bool{}
		for i, n := 0, 1+g.pick("nfwd", 2); i < n; i++ {
			lbl := fmt.Sprintf("fwd%d", i+1)
			if i == 1 {
				lbl = "later one"
			}
			fwd = append(fwd, lbl)
			g.fwd[lbl] = true
			g.Labels = append(g.Labels, lbl)
		}
	}
	doc := g.blocks(bctx{depth: g.Sz.Depth}, 1+g.pick("ndoc", g.Sz.MaxBlocks))
	for _, lbl := range fwd {
		b := &Block{K: RefDef, Label: lbl, Dest: g.dest(), Title: g.title(true)}
		if g.pick("fwdinquote", 4) == 0 {
			b = &Block{K: Quote, Kids: []*Block{b}}
		}
		doc = append(doc, b)
	}
	return doc
}
