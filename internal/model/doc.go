// Package model is generator G4: abstract CommonMark documents, the HTML the
// CommonMark 0.30 mapping assigns to them (computed from the abstract tree
// only), and a serializer that turns the tree into CommonMark source making a
// drawn choice wherever the spec fixes the meaning of several spellings.
//
// The serializer's safety rules (S1-S7 in DESIGN.md) are what makes the model
// sound: it only emits spellings whose meaning the spec text fixes.
package model

import (
	"fmt"
	"html"
	"strings"
)

// Inline kinds.
const (
	Text     = "text"
	Soft     = "soft"
	Hard     = "hard"
	Em       = "em"
	Strong   = "strong"
	Code     = "code"
	Link     = "link"
	Image    = "image"
	Autolink = "autolink"
	RawTag   = "raw"
)

type Inline struct {
	K        string
	S        string // text / code content / autolink target / raw tag
	Kids     []*Inline
	Dest     string
	Title    *string
	RefLabel string // non-empty: reference style, resolved through the document's definitions
	RefStyle int    // 0 full, 1 collapsed, 2 shortcut
}

// Block kinds.
const (
	Para     = "para"
	ATX      = "atx"
	Setext   = "setext"
	HR       = "hr"
	Fenced   = "fenced"
	Indented = "indented"
	HTML     = "html"
	RefDef   = "refdef"
	Quote    = "quote"
	List     = "list"
)

type Block struct {
	K       string
	Level   int
	Inl     []*Inline
	Info    string   // fenced: info string as it denotes (decoded)
	InfoSrc string   // fenced: its source spelling
	Lines   []string // code / html lines
	Raws    []string // html: the raw tag strings occurring in Lines
	HKind   int      // html block kind 1-7
	Kids    []*Block // quote
	Items   [][]*Block
	Ordered bool
	Start   int
	Tight   bool
	Label   string
	Dest    string
	Title   *string
}

func esc(s string) string { return html.EscapeString(s) }

// plain is the "plain string content" used for image alt text.
func plain(inls []*Inline) string {
	var sb strings.Builder
	for _, in := range inls {
		switch in.K {
		case Text, Code, Autolink:
			sb.WriteString(in.S)
		case Soft, Hard:
			sb.WriteString(" ")
		case RawTag:
		default:
			sb.WriteString(plain(in.Kids))
		}
	}
	return sb.String()
}

type refdef struct {
	dest  string
	title *string
}

func normLabel(l string) string {
	return strings.ToLower(strings.Join(strings.Fields(l), " "))
}

func htmlInl(sb *strings.Builder, inls []*Inline, refs map[string]refdef) {
	for _, in := range inls {
		switch in.K {
		case Text:
			sb.WriteString(esc(in.S))
		case Soft:
			sb.WriteString("\n")
		case Hard:
			sb.WriteString("<br>\n")
		case Em:
			sb.WriteString("<em>")
			htmlInl(sb, in.Kids, refs)
			sb.WriteString("</em>")
		case Strong:
			sb.WriteString("<strong>")
			htmlInl(sb, in.Kids, refs)
			sb.WriteString("</strong>")
		case Code:
			sb.WriteString("<code>" + esc(in.S) + "</code>")
		case Link, Image:
			dest, title := in.Dest, in.Title
			if in.RefLabel != "" {
				d := refs[normLabel(in.RefLabel)]
				dest, title = d.dest, d.title
			}
			if in.K == Link {
				sb.WriteString(`<a href="` + esc(dest) + `"`)
				if title != nil {
					sb.WriteString(` title="` + esc(*title) + `"`)
				}
				sb.WriteString(">")
				htmlInl(sb, in.Kids, refs)
				sb.WriteString("</a>")
			} else {
				sb.WriteString(`<img src="` + esc(dest) + `"`)
				if title != nil {
					sb.WriteString(` title="` + esc(*title) + `"`)
				}
				sb.WriteString(` alt="` + esc(plain(in.Kids)) + `">`)
			}
		case Autolink:
			href := in.S
			if !strings.Contains(in.S, ":") {
				href = "mailto:" + in.S
			}
			sb.WriteString(`<a href="` + esc(href) + `">` + esc(in.S) + `</a>`)
		case RawTag:
			sb.WriteString(in.S)
		}
	}
}

func htmlBlocks(sb *strings.Builder, bs []*Block, tight bool, refs map[string]refdef) {
	for _, b := range bs {
		switch b.K {
		case Para:
			if !tight {
				sb.WriteString("<p>")
			}
			htmlInl(sb, b.Inl, refs)
			if !tight {
				sb.WriteString("</p>")
			}
		case ATX, Setext:
			fmt.Fprintf(sb, "<h%d>", b.Level)
			htmlInl(sb, b.Inl, refs)
			fmt.Fprintf(sb, "</h%d>", b.Level)
		case HR:
			sb.WriteString("<hr>")
		case Fenced, Indented:
			sb.WriteString("<pre><code")
			if f := strings.Fields(b.Info); len(f) > 0 {
				sb.WriteString(` class="language-` + esc(f[0]) + `"`)
			}
			sb.WriteString(">")
			for _, l := range b.Lines {
				sb.WriteString(esc(l) + "\n")
			}
			sb.WriteString("</code></pre>")
		case HTML:
			sb.WriteString(strings.Join(b.Lines, "\n") + "\n")
		case RefDef:
		case Quote:
			sb.WriteString("<blockquote>")
			htmlBlocks(sb, b.Kids, false, refs)
			sb.WriteString("</blockquote>")
		case List:
			if b.Ordered {
				if b.Start != 1 {
					fmt.Fprintf(sb, `<ol start="%d">`, b.Start)
				} else {
					sb.WriteString("<ol>")
				}
			} else {
				sb.WriteString("<ul>")
			}
			for _, it := range b.Items {
				sb.WriteString("<li>")
				htmlBlocks(sb, it, b.Tight, refs)
				sb.WriteString("</li>")
			}
			if b.Ordered {
				sb.WriteString("</ol>")
			} else {
				sb.WriteString("</ul>")
			}
		}
	}
}

func collectRefs(bs []*Block, refs map[string]refdef) {
	for _, b := range bs {
		switch b.K {
		case RefDef:
			if _, ok := refs[normLabel(b.Label)]; !ok {
				refs[normLabel(b.Label)] = refdef{b.Dest, b.Title}
			}
		case Quote:
			collectRefs(b.Kids, refs)
		case List:
			for _, it := range b.Items {
				collectRefs(it, refs)
			}
		}
	}
}

// ExpectedHTML is the HTML the CommonMark 0.30 mapping assigns to the abstract
// document. Nothing in it looks at the serialized text.
func ExpectedHTML(doc []*Block) string {
	refs := map[string]refdef{}
	collectRefs(doc, refs)
	var sb strings.Builder
	htmlBlocks(&sb, doc, false, refs)
	return sb.String()
}

// RawStrings lists the raw HTML strings the document contains (inline tags and
// the tags inside HTML blocks), for the comparison tokenizer.
func RawStrings(doc []*Block) []string {
	seen := map[string]bool{}
	var out []string
	add := func(s string) {
		if !seen[s] {
			seen[s] = true
			out = append(out, s)
		}
	}
	var inl func([]*Inline)
	inl = func(is []*Inline) {
		for _, in := range is {
			if in.K == RawTag {
				add(in.S)
			}
			inl(in.Kids)
		}
	}
	var blk func([]*Block)
	blk = func(bs []*Block) {
		for _, b := range bs {
			inl(b.Inl)
			for _, r := range b.Raws {
				add(r)
			}
			blk(b.Kids)
			for _, it := range b.Items {
				blk(it)
			}
		}
	}
	blk(doc)
	return out
}

// Features summarises a document for non-triviality rules and labels.
type Features struct {
	Depth, Blocks                                               int
	Kinds                                                       map[string]int
	MultiLineInlineInContainer, Containers, LooseLists, RefUses int
}

func Describe(doc []*Block) Features {
	f := Features{Kinds: map[string]int{}}
	var inl func(is []*Inline, inContainer bool)
	inl = func(is []*Inline, inContainer bool) {
		for _, in := range is {
			f.Kinds["inline:"+in.K]++
			if in.RefLabel != "" {
				f.RefUses++
			}
			if inContainer && (in.K == Em || in.K == Strong || in.K == Link || in.K == Image) {
				if hasBreak(in.Kids) || (in.Title != nil && strings.Contains(*in.Title, "\n")) {
					f.MultiLineInlineInContainer++
				}
			}
			inl(in.Kids, inContainer)
		}
	}
	var blk func(bs []*Block, d int)
	blk = func(bs []*Block, d int) {
		if d > f.Depth {
			f.Depth = d
		}
		for _, b := range bs {
			f.Blocks++
			f.Kinds[b.K]++
			inl(b.Inl, d > 0)
			switch b.K {
			case Quote:
				f.Containers++
				blk(b.Kids, d+1)
			case List:
				f.Containers++
				if !b.Tight {
					f.LooseLists++
				}
				for _, it := range b.Items {
					blk(it, d+1)
				}
			}
		}
	}
	blk(doc, 0)
	return f
}

func hasBreak(is []*Inline) bool {
	for _, in := range is {
		if in.K == Soft || in.K == Hard || hasBreak(in.Kids) {
			return true
		}
	}
	return false
}
