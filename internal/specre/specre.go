// Package specre is oracle O6: the regular definitions of the CommonMark 0.30
// text for the line-level constructs, transcribed as Go regular expressions
// (RE2 has no back-references, so "the same character" is written as an
// alternation). All functions take a line whose leading indentation has been
// removed by the caller and which may end in one line ending.
package specre

import (
	"regexp"
	"strconv"
	"strings"
)

const eol = `(?:\r\n|\n|\r)?`

var (
	thematicRE = regexp.MustCompile(`^(?:(?:-[ \t]*){3,}|(?:_[ \t]*){3,}|(?:\*[ \t]*){3,})` + eol + `$`)
	atxRE      = regexp.MustCompile(`^(#{1,6})(?:[ \t]+([^\r\n]*))?` + eol + `$`)
	closingRE  = regexp.MustCompile(`^(?:(.*[ \t]))?#+$`)
	setextRE   = regexp.MustCompile(`^(=+|-+)[ \t]*` + eol + `$`)
	fenceRE    = regexp.MustCompile("^(`{3,}|~{3,})([^\r\n]*)" + eol + `$`)
	listRE     = regexp.MustCompile(`^([-+*]|([0-9]{1,9})([.)]))(?:[ \t]|\r|\n|$)`)
	// the e-mail address regular expression quoted in the spec (from HTML5)
	EmailRE = regexp.MustCompile("^[a-zA-Z0-9.!#$%&'*+/=?^_`{|}~-]+@[a-zA-Z0-9](?:[a-zA-Z0-9-]{0,61}[a-zA-Z0-9])?(?:\\.[a-zA-Z0-9](?:[a-zA-Z0-9-]{0,61}[a-zA-Z0-9])?)*$")
)

// ThematicBreak returns the index after the last marker character, or -1.
func ThematicBreak(line string) int {
	if !thematicRE.MatchString(line) {
		return -1
	}
	return strings.LastIndexAny(line, "-_*") + 1
}

// ATX returns the level (0 if the line is not an ATX heading) and the raw
// contents after removal of the opening sequence, the optional closing
// sequence and surrounding spaces/tabs, with the offset of the contents.
func ATX(line string) (level int, content string, start int) {
	m := atxRE.FindStringSubmatchIndex(line)
	if m == nil {
		return 0, "", 0
	}
	level = m[3] - m[2]
	if m[4] < 0 {
		return level, "", m[3]
	}
	rest := line[m[4]:m[5]]
	start = m[4]
	// strip leading (already none: [ \t]+ is greedy) and trailing spaces/tabs
	rest = strings.TrimRight(rest, " \t")
	if c := closingRE.FindStringSubmatch(rest); c != nil {
		rest = strings.TrimRight(c[1], " \t")
	}
	return level, rest, start
}

// SetextUnderline returns 1 for =, 2 for -, 0 otherwise.
func SetextUnderline(line string) int {
	m := setextRE.FindStringSubmatch(line)
	if m == nil {
		return 0
	}
	if m[1][0] == '=' {
		return 1
	}
	return 2
}

// Fence returns the fence character, its length (0 if the line is not a code
// fence) and the info string.
func Fence(line string) (char byte, n int, info string) {
	m := fenceRE.FindStringSubmatch(line)
	if m == nil {
		return 0, 0, ""
	}
	info = strings.Trim(m[2], " \t")
	if m[1][0] == '`' && strings.Contains(info, "`") {
		return 0, 0, ""
	}
	return m[1][0], len(m[1]), info
}

// ListMarker returns the delimiter (one of - + * . )), the start number and the
// marker length; end is -1 if the line does not begin with a list marker.
func ListMarker(line string) (delim byte, n int, end int) {
	m := listRE.FindStringSubmatch(line)
	if m == nil {
		return 0, 0, -1
	}
	if m[2] == "" {
		return m[1][0], 0, 1
	}
	n, _ = strconv.Atoi(m[2])
	return m[3][0], n, len(m[1])
}

// ASCII classifier tables from the spec.
func IsASCIIPunctuation(c byte) bool {
	return strings.IndexByte("!\"#$%&'()*+,-./:;<=>?@[\\]^_`{|}~", c) >= 0
}
func IsASCIIControl(c byte) bool { return c < 0x20 || c == 0x7f }
func IsHex(c byte) bool         { return strings.IndexByte("0123456789abcdefABCDEF", c) >= 0 }
func IsSpaceTabEOL(c byte) bool { return c == ' ' || c == '\t' || c == '\n' || c == '\r' }

// URIOutputOK: only unreserved / reserved characters and %XX escapes.
// (square brackets are reserved characters in RFC 3986; the library happens
// to encode them, which the comparison with the reference normaliser pins, not
// this predicate)
var uriOut = regexp.MustCompile(`^(?:[A-Za-z0-9;/?:@&=+$,\-_.!~*'()#\[\]]|%[0-9A-Fa-f]{2})*$`)

func URIOutputOK(s string) bool { return uriOut.MatchString(s) }

// ---- inline constructs whose syntax the spec gives as a regular definition
// (section 6.6 raw HTML, 6.5 autolinks, 2.5 entity and numeric character
// references). ws: spaces, tabs and up to one line ending.
const (
	ws       = `(?:[ \t]+|[ \t]*(?:\r\n|\n|\r)[ \t]*)`
	optws    = `(?:[ \t]*(?:(?:\r\n|\n|\r)[ \t]*)?)`
	tagName  = `[A-Za-z][A-Za-z0-9-]*`
	attrName = `[A-Za-z_:][A-Za-z0-9_.:-]*`
	attrVal  = "(?:[^ \\t\\r\\n\"'=<>`]+|'[^']*'|\"[^\"]*\")"
	attr     = ws + attrName + `(?:` + optws + `=` + optws + attrVal + `)?`
)

var (
	openTagRE  = regexp.MustCompile(`^<` + tagName + `(?:` + attr + `)*` + optws + `/?>$`)
	closeTagRE = regexp.MustCompile(`^</` + tagName + optws + `>$`)
	declRE     = regexp.MustCompile(`^<![A-Za-z][^>]*>$`)
	autoURIRE  = regexp.MustCompile(`^<[A-Za-z][A-Za-z0-9+.-]{1,31}:[^\x00-\x20\x7f<>]*>$`)
	decRefRE   = regexp.MustCompile(`^&#[0-9]{1,7};$`)
	hexRefRE   = regexp.MustCompile(`^&#[xX][0-9a-fA-F]{1,6};$`)
	namedRefRE = regexp.MustCompile(`^&([A-Za-z0-9]+;)$`)
)

// HTMLTag reports which form of inline raw HTML the text is ("open", "close",
// "comment", "pi", "decl", "cdata") or "" if it is none (CommonMark 0.30).
func HTMLTag(s string) string {
	switch {
	case strings.HasPrefix(s, "<!--"):
		if !strings.HasSuffix(s, "-->") || len(s) < 7 {
			return ""
		}
		t := s[4 : len(s)-3]
		if strings.HasPrefix(t, ">") || strings.HasPrefix(t, "->") || strings.HasSuffix(t, "-") || strings.Contains(t, "--") {
			return ""
		}
		return "comment"
	case strings.HasPrefix(s, "<?"):
		if len(s) >= 4 && strings.HasSuffix(s, "?>") && strings.Index(s[2:], "?>") == len(s)-4 {
			return "pi"
		}
		return ""
	case strings.HasPrefix(s, "<![CDATA["):
		if len(s) >= 12 && strings.HasSuffix(s, "]]>") && strings.Index(s[9:], "]]>") == len(s)-12 {
			return "cdata"
		}
		return ""
	case declRE.MatchString(s):
		return "decl"
	case closeTagRE.MatchString(s):
		return "close"
	case openTagRE.MatchString(s):
		return "open"
	}
	return ""
}

// Autolink reports whether the text (with its angle brackets) is a URI
// autolink ("uri"), an e-mail autolink ("email") or neither ("").
func Autolink(s string) string {
	if autoURIRE.MatchString(s) {
		return "uri"
	}
	if len(s) >= 3 && s[0] == '<' && s[len(s)-1] == '>' && EmailRE.MatchString(s[1:len(s)-1]) {
		return "email"
	}
	return ""
}

// CharRef reports whether the text is a numeric character reference or a named
// one whose name (with its semicolon) is in the given table.
func CharRef(s string, names map[string]bool) bool {
	if decRefRE.MatchString(s) || hexRefRE.MatchString(s) {
		return true
	}
	if m := namedRefRE.FindStringSubmatch(s); m != nil {
		return names[m[1]]
	}
	return false
}
