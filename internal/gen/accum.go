package gen

import (
	"strings"

	"pgregory.net/rapid"
)

// accumLeftovers are inline openers that stay open at the end of their block:
// whatever a parser remembers about them (a stack of bracket openers, a table of
// backtick runs seen, delimiter runs, a position in a comment) must end with the
// block. accumConstructs are complete constructs, which a parser that carried
// such memory over would read differently.
var accumLeftovers = []string{
	"[", "[[", "![", "[a", "![a", "*a", "**a", "_a", "__a", "***a", "`a", "``a", "```` a", "<a", "<!-- c", "<?p", "<![CDATA[x", "&amp",
	"[a](", "[a](/u \"t", "[a][", "![a](", "]", "](", "a]", "<http://a", "a*", "a**", "a_", "a` b", "\\", "[a]:", "\"", "(", "[a]( <b",
}
var accumConstructs = []string{
	"[a](/u)", "![i](/s \"t\")", "[r]", "[t][r]", "[r][]", "![r]", "`c`", "``c ` d``", "```` e ````", "*e*", "**s**", "_e_", "__s__", "***b***",
	"<http://a.b>", "<x@y.z>", "<b>", "</b>", "<!-- c -->", "<?p ?>", "&amp;", "&#35;", "\\*", "[a](/u \"t\")", "[a](</u v>)", "[*e*](/u)", "[![i](/s)](/u)",
	"*a `c` b*", "[a]( /u )", "a  \nb", "a\\\nb", "[U](/x) [V][r]",
}

// AccumDoc builds documents of 40-450 small root blocks. The first part is
// dominated by one kind of leftover opener, written 1-4 times per block, so that
// by the end of it several hundred of them have been seen (a counter, a table
// indexed by a count, or a bound on pending openers is then crossed whatever its
// size is up to about a thousand); the rest holds complete constructs of every
// kind, mixed with more leftovers. Blocks are paragraphs, ATX headings, quotes
// and list items; a definition of [r] is placed first, last or in the middle.
func AccumDoc() *rapid.Generator[[]byte] {
	return rapid.Custom(func(t *rapid.T) []byte {
		n := []int{40, 90, 120, 150, 260, 300, 450}[rapid.IntRange(0, 6).Draw(t, "nblocks")]
		dom := accumLeftovers[rapid.IntRange(0, len(accumLeftovers)-1).Draw(t, "dominant")]
		split := n * rapid.IntRange(3, 9).Draw(t, "split") / 10
		defAt := []int{0, n / 2, n - 1}[rapid.IntRange(0, 2).Draw(t, "defat")]
		sep := []string{"\n\n", "\n\n", "\r\n\r\n", "\r\r"}[rapid.IntRange(0, 3).Draw(t, "sep")]
		wrap := rapid.IntRange(0, 9).Draw(t, "wrapmode")
		var sb strings.Builder
		// a handful of drawn blocks are cycled through the second part, so that the
		// draw count (and the shrinker's work) stays small while the document is long
		nvar := rapid.IntRange(3, 10).Draw(t, "nvariants")
		variants := make([]string, nvar)
		for i := range variants {
			var parts []string
			for k := rapid.IntRange(1, 3).Draw(t, "ntok"); k > 0; k-- {
				if rapid.IntRange(0, 3).Draw(t, "kind") == 0 {
					parts = append(parts, accumLeftovers[rapid.IntRange(0, len(accumLeftovers)-1).Draw(t, "left")])
				} else {
					parts = append(parts, accumConstructs[rapid.IntRange(0, len(accumConstructs)-1).Draw(t, "cons")])
				}
			}
			variants[i] = strings.Join(parts, " ")
		}
		reps := rapid.IntRange(1, 4).Draw(t, "reps")
		for i := 0; i < n; i++ {
			if i == defAt {
				sb.WriteString("[r]: /ref 'rt'" + sep)
			}
			var body string
			if i < split {
				body = "x " + strings.TrimSpace(strings.Repeat(dom+" ", reps))
			} else {
				body = "y " + variants[(i-split)%nvar]
			}
			switch {
			case wrap == 1 && i%5 == 4:
				body = "# " + strings.ReplaceAll(body, "\n", " ")
			case wrap == 2 && i%3 == 2:
				body = "> " + strings.ReplaceAll(body, "\n", "\n> ")
			case wrap == 3 && i%3 == 2:
				body = "- " + strings.ReplaceAll(body, "\n", "\n  ")
			}
			sb.WriteString(body)
			if i < n-1 || rapid.Bool().Draw(t, "finalnl") {
				sb.WriteString(sep)
			}
		}
		return []byte(sb.String())
	})
}
