// Package gen: enumerated edge documents. LastLines are lines that the block
// and inline rules treat specially; LastContexts are what may precede them.
// EdgeDocs is their product, each with and without a final line ending and in
// LF and CRLF: a few thousand tiny documents in which every special line is
// the last line of every kind of open context.
package gen

import "strings"

var LastLines = []string{
	"a", "a  ", "a\\", "a\\\\", "*a", "a*", "`a", "a`", "``", "[a]", "[a][]", "[a][b]", "[a](", "[a](/u", "[a](/u)", "[a](/u \"t", "![a]", "<b", "<b>", "</b>", "<!--", "<!-- c -->", "<?x", "&amp", "&amp;", "&#35", "a&", "<http://a.b>",
	"# h", "# h #", "#", "# ", "####### x", "#h", "===", "---", "=", "-", "--", "***", "* * *", "_ _ _", "- ", "-", "+", "*", "1.", "1. ", "1)", "10. a", "- a", "> a", ">", "> ", ">>",
	"```", "````", "~~~", "``` go", "``` foo`", "```go`", "~~~ a`b", "~~~x~", "``` `", "`````x", "    code", "    ", "  ", "\t", "\tcode", "     x",
	"<div>", "</div>", "<div", "<pre>", "</pre>", "<script>", "</script>", "<!-- x", "-->", "<?php", "?>", "<!X", "<![CDATA[", "]]>", "<a href=\"x\">", "<span>", "<x-y z>",
	"[r]: /u", "[r]:", "[r]: /u \"t\"", "[r]: /u \"t", "[r]: /u 't'x", "[r]: <u>", "[r]: </u", "[r", "[r]", "\"title\"", "'t'", "(t)", "/u",
	"|a|b|", "a | b", ":--", "\\", "\\#", "&", "<", ">", "\x00", "a\x00", "é", "\xff", "a\u00a0", "\u00a0", "\f", "a\f",
}

var LastContexts = []string{
	"", "a\n", "a\n\n", "> ", "> a\n> ", "> a\n", "- ", "- a\n  ", "- a\n\n  ", "- a\n", "1. ", "> - ", "- > ", "```\n", "``` x\na\n", "~~~~\n", "    c\n", "    c\n\n", "<div>\n", "<pre>\n", "<!-- c\n", "<script>\n",
	"[r]: /u\n", "[r]:\n", "[r]: /u\n\"t\n", "# h\n", "a\n===\n", "***\n", "a  \n", "a\\\n", "[a](/u\n", "`a\n", "*a\n", "<b\n", "- a\n- ", "- a\n\n- ", "> a\n\n> ", "-\n  ", "1.\n   ",
}

var edgeDocs [][]byte

// EdgeDocs returns the enumerated edge documents (built once).
func EdgeDocs() [][]byte {
	if edgeDocs != nil {
		return edgeDocs
	}
	for _, ctx := range LastContexts {
		for _, l := range LastLines {
			d := ctx + l
			edgeDocs = append(edgeDocs, []byte(d), []byte(d+"\n"), []byte(strings.ReplaceAll(d, "\n", "\r\n")), []byte(strings.ReplaceAll(d, "\n", "\r")+"\r"))
		}
	}
	// every construct cut after every byte, in every context
	edgeDocs = append(edgeDocs, TruncDocs()...)
	// pairs of delimiter runs of every combination of lengths around the sizes
	// at which a table indexed by run length would end (a run that opens, text,
	// a run of another length, text, a run of the first length again)
	lens := []int{1, 2, 3, 4, 31, 32, 33, 34, 63, 64, 65, 127, 128, 129}
	for _, u := range []string{"`", "*", "_", "~"} {
		for _, n := range lens {
			for _, m := range lens {
				a, b := strings.Repeat(u, n), strings.Repeat(u, m)
				edgeDocs = append(edgeDocs, []byte(a+"x"+b), []byte("w "+a+"x"+b+" y "+a+" z\n"), []byte("> "+a+"x\n> "+b+"\n"))
			}
		}
	}
	return edgeDocs
}
