// Package gen holds the shared rapid generators G1 (byte soup), G2
// (line-structured documents), G3 (corpus mutation) and helpers. Every random
// choice is a rapid draw, so shrinking and replay work.
package gen

import (
	_ "embed"
	"encoding/json"
	"fmt"
	"strconv"
	"strings"

	"pgregory.net/rapid"
	"verif/internal/model"
)

//go:embed corpus/spec-0.30.json
var specJSON []byte

// SpecExample is one example of the CommonMark 0.30 spec (snapshot taken from
// the repository when the framework was built; edits to /repo's copy do not
// matter).
type SpecExample struct {
	Markdown string `json:"markdown"`
	HTML     string `json:"html"`
	Example  int    `json:"example"`
	Section  string `json:"section"`
}

var Spec []SpecExample

func init() {
	if err := json.Unmarshal(specJSON, &Spec); err != nil {
		panic(err)
	}
}

// Frags are the G1 fragments: markdown-significant tokens, whitespace of every
// kind, NUL, multi-byte and invalid UTF-8.
var Frags = []string{
	"a", "b", "foo", "bar", "Z", "9", "12", " ", " ", "  ", "   ", "    ", "\t", "\n", "\n", "\n\n", "\r\n", "\r", "\f",
	"*", "**", "_", "__", "`", "``", "```", "~~~", "#", "##", "# ", "-", "- ", "+ ", "* ", "1. ", "2) ", "---", "===", "***", "___",
	">", "> ", "[", "]", "(", ")", "![", "](", "]: ", "[]", "][", "<", ">", "</", "<a>", "<b x=\"y\">", "<!--", "-->", "<?", "?>", "<!X", "<![CDATA[", "]]>",
	"<div>", "<pre>", "</pre>", "<script>", "&", "&amp;", "&#35;", "&#x22;", "&x;", ";", "\\", "\\\\", "\\*", "\\\n", "\"", "'", "http://a.b", "<http://a.b>", "<a@b.c>",
	"\x00", "\x00\x00", "é", "ß", "İ", " ", " ", "“", "猫", "\xff", "\xc3", "\x80", ":", "/u", " \"t\"", " 't'", " (t)", "!", "=", ".", ")", "|", "{", "}", "^", "$", "%", "%41", "%GG", "@", ",", "?",
	"  \n", "\\\n", "\n    ", "\n  ", "\n> ", "\n- ", "\n1. ", "\n\t", "\n   ", "&copy;", "&notit;", "&#xG;", "&#0;", "<b>", "</b>", "[r]", "[r]: /u\n",
	// further Unicode classes: symbols (Sc So Sm), a four-byte character, connector and dash punctuation, a number,
	// a combining mark, NEL, line separator, zero-width space (Cf), ideographic space (Zs), U+FFFD, title case, ligature, sigmas
	"€", "©", "±", "😀", "‿", "–", "½", "e\u0301", "\u0085", "\u2028", "\u200b", "\u3000", "\ufffd", "ǅ", "ﬁ", "Σ", "ς",
	// numeric character references of every class (C1 range that HTML remaps, controls, surrogates, out of range, noncharacters, NUL)
	"&#150;", "&#x80;", "&#128;", "&#159;", "&#x9F;", "&#9;", "&#10;", "&#13;", "&#127;", "&#xD800;", "&#x110000;", "&#xFFFE;", "&#1114111;", "&#x10FFFF;", "&#0000060;", "&#X3c;",
	// percent escapes cut short at the end of a destination, supplementary-plane punctuation and letters
	"%4", "/x%4)", "](/x%f)", "<http://a.b/%f>", "[r]: /50%2\n", "/caf\u00e9)", "/a|b|)", "\U00010100", "\U0001091F", "\U00010400", "a\U00010100*b*",
	// numbers with leading zeros and of 9-11 digits, as list markers and as text
	"08. ", "0019. ", "000000089) ", "010. ", "0123456789. ", "0000000001) ", "00000000000.", "123456789. ", "1234567890. ", "09)", "007",
	"####### ", "#######", "###### ", "######",
	// definitions on continuation lines with every kind of indentation
	"\n\t[s]: /v", "\n \t[s]: /v 't'", "\n     [s]: /v", "\n  [s]: /v\n",
	// invalid UTF-8 inside constructs
	"[t](/x\xffy)", "<http://a\x80b>", "[r]: /u\xc3\n", "![\xff](/s \"\xc3\")", "`\xff`",
	// list items that begin with a blank line, marker indented or not
	"-\n  a", " -\n   a", "  1.\n     a", "-\n      code", "  -\n        code", "   *\n         code\n",
	// code lines that begin with a tab of which only a part is indentation to strip: under an indented opening
	// fence, inside containers, after a marker (the tree then holds an Indent of 1-3 columns for one tab byte)
	" ```\n\tx\n ```\n", "  ~~~\n\t\ty\n  ~~~\n", "   ```\n \tz\n", "> ```\n>\tx\n> ```\n", "- ```\n\t x\n  ```\n", ">\t```\n>\t\tx\n", "1. ```\n \t\tx\n", "-\t\tcode\n \t\tmore\n", " >\t    x\n",
}

// Soup is G1: a weighted sequence of fragments with occasional arbitrary bytes.
func Soup() *rapid.Generator[[]byte] {
	return rapid.Custom(func(t *rapid.T) []byte {
		max := 24
		if rapid.IntRange(0, 7).Draw(t, "big") == 0 {
			max = 80
		}
		n := rapid.IntRange(0, max).Draw(t, "n")
		var out []byte
		for i := 0; i < n; i++ {
			k := rapid.IntRange(0, len(Frags)+len(Frags)/11).Draw(t, "f")
			if k >= len(Frags) {
				out = append(out, rapid.Byte().Draw(t, "raw"))
				continue
			}
			out = append(out, Frags[k]...)
		}
		return out
	})
}

// Inl are the G2 inline fragments: halves of multi-line constructs.
var Inl = []string{
	"a", "b c", "foo", "*a*", "**b**", "_c_", "*a", "b*", "**x", "y**", "`c`", "``c", "d``", "`", "[t](/u)", "[t](/u \"ti\")", "[t](</u>", "'ti\n tle')", "[t](/u \"a", "b\")",
	"[t][r]", "[r]", "[r][]", "[t\nu]", "[a", "b]", "[a\nb]: /u", "![i](/s)", "![i", "j](/s)", "<a href=\"x\">", "<a\n href='y'>", "<a", "b>", "<!-- c", "d -->", "<?p", "q?>", "<![CDATA[x", "y]]>",
	"<http://x.y>", "&amp;", "\\*", "\\", "  ", " ", "!", "[", "]", "(", ")", "<", ">", "#", "=", "-", "é", "\x00", "1.", "x\\", "***a", "a***", "_", "__",
	"</b>", "<b>", "[t](/u\\", "&#x2d;", "![\"x](y)", "[r][a\nb]", "\\é", "##", " #",
	"[![[x](/y)](/z)](/w)", "[![", "![[", "](/z)", "[a ![b [c](/d) e](/f) g](/h)", "![a [b](/c)](/d)", "[![i](/s)](/u)", "[[x](/y)](/z)", "[r]: /u", "![foo][]", "![r]", "![r][r]",
	"<DIV>", "<XMP>", "<B>", "</DIV>", "<Script>",
	"\ufeff", "\ufeff# h", "a\\\rb", "x\\\r\ny\\\rz", "[foo\\a]: /u", "[x][foo\\a]", "[ref\\1]", "[foo\\a]", "``` a&#32;b c\n", "~~~ x&Tab;y z\n", "``` a&nbsp;b\n", "- > q\n  ***\n  p", "- > q\n  # h\n  p\n- r", "> a\n>\n>\t  code", ">\t\tcode1\n>\t\tcode2", "> - a\n>\n>\tb",
	"[\x00a\x00]: /u", "[\x00a\x00]", "\x00a\x00", "[a\x00\x00b\x00]", "`\x00 \x00`", "<a\x00b\x00>", "(/u\x00v\x00 \"t\x00\x00u\x00\")",
	// a backslash before a non-ASCII character, NUL or invalid byte, in every place escapes are processed
	"[t](/u\\é)", "[t](/u \"a\\猫\")", "[a\\é]: /u", "[a\\é]", "<a b=\"\\é\">", "`\\é`", "\\\x00", "[t](<\\é>)", "![\\é](/s '\\\x00')", "\\\xff", "[r]: /u\\é \"t\\ß\"\n",
	// a backslash directly before the line ending, inside every construct that may span lines
	"[t](<b\\\nc>)", "[r]: <b\\\nc>", "![i](<x\\\ny> 't')", "[t](/u 'a\\\nb')", "[t](/u\\\n)", "<a b=\"c\\\nd\">", "`a\\\nb`", "[a\\\nb]", "[a\\\nb]: /u", "[t][a\\\nb]", "<!-- a\\\nb -->", "[r]: /u \"t\\\nu\"",
	// constructs over three lines (a middle line that lies wholly inside the construct)
	"[a\nb\nc]: /u", "[t][a\nb\nc]", "[a\nb\nc]", "`a\nb\nc`", "<a\nb\nc>", "<!-- a\nb\nc -->", "[t](/u\n'x\ny')", "[t\nu\nv](/w)", "*a\nb\nc*",
	// a NUL first on a continuation line of a multi-line label, title, tag or code span (behind whatever prefix the container has)
	"[a\n\x00b]: /u", "[a\n\x00b]", "[x][a\x00\n\x00\x00b]", "[t](/u 'x\n\x00y')", "<a\n\x00b='c'>", "`c\n\x00d`", "[t](/u\n\"\x00\")",
}

// Constructs are complete inline constructs; Lines uses them whole, split by a
// line ending at an arbitrary position, or damaged by a one-character edit, so
// that the neighbourhood of every construct (the strings that are *almost* a
// tag, an autolink, a reference, a link) is reached, inside containers too.
var Constructs = []string{
	"<a href=\"x\" b='y' c=z d>", "</a >", "<br/>", "<b >", "<!-- c -->", "<!--c-->", "<!-- a-b -->", "<?php x ?>", "<!DOCTYPE html>", "<!x y>", "<![CDATA[x]]>", "<![CDATA[ a ]] b ]]>",
	"<http://a.b/c?d>", "<me@x.yz>", "<ab:c>", "<a+b.c-d:e>", "<mailto:a@b.c>",
	"&amp;", "&#123;", "&#x1F;", "&copy;", "&#1234567;", "&#xABCDEF;", "&AElig;", "&nbsp;",
	"[t](/u \"ti\")", "[t](</u v> 'ti')", "[t](/u (ti))", "[t]()", "[t](<>)", "![i](/s \"t\")", "[t][r]", "[r][]", "[r]", "[t]( /u )", "[t](/u(v)w)", "[t](/u\\)x)",
	"`code`", "``c`d``", "` `` `", "*em*", "**st**", "_e_", "__s__", "***x***", "*a **b** c*", "a  \nb", "a\\\nb",
}

var damage = []string{" ", "<", ">", "\"", "'", "-", "\\", "!", "/", "=", "`", "]", "(", "&", ";", "#", "\t", "x", ":", "@", "?"}

func construct(t *rapid.T) string {
	c := Constructs[rapid.IntRange(0, len(Constructs)-1).Draw(t, "construct")]
	switch rapid.IntRange(0, 5).Draw(t, "damage") {
	case 0, 1: // one to three line endings at arbitrary interior positions
		for n := rapid.IntRange(1, 3).Draw(t, "nsplit"); n > 0; n-- {
			p := rapid.IntRange(1, len(c)-1).Draw(t, "splitpos")
			if c[p-1] == '\n' || c[p] == '\n' {
				continue // no blank line
			}
			c = c[:p] + "\n" + c[p:]
		}
		return c
	case 2: // one character deleted
		p := rapid.IntRange(0, len(c)-1).Draw(t, "delpos")
		return c[:p] + c[p+1:]
	case 3: // one character inserted
		p := rapid.IntRange(0, len(c)).Draw(t, "inspos")
		return c[:p] + damage[rapid.IntRange(0, len(damage)-1).Draw(t, "ins")] + c[p:]
	}
	return c
}

// Starts are the G2 block openers.
var Starts = []string{"", "", "", "# ", "## ", "> ", "- ", "1. ", "   ", "    ", "\t", "```\n", "~~~\n", "<div>\n", "[r]: /u\n", "[r]: /u 't'\n", "---\n", "===\n", "* ", "+ ", "10) ", " > ", "  - ", "[a\nb]: /x\n", "[r]:\n/u\n", "[r]: /u\n'ti\ntle'\n", "<!-- x\n", "<pre>\n", "<script>\n", "``` info\n", "    code\n",
	"``` a\\é\n", "~~~ \\猫 x\n", "``` go\\\x00 y\n", "```\\ß\n", "``` \\\xff\n",
	"[r]: /u\n\t[s]: /v\n", "[r]: /u\n \t[s]: /v 't'\n", "[r]: /u\n     [s]: /v\n", "-\n", "1.\n", " -\n", "#######\n", "####### x\n", "###### \n"}

var prefixes = []string{"", "> ", "  ", "   ", "> > ", ">  ", "    ", ">", "1. ", "- ", "10) ", "\t", "08. ", " - ", "  1. ", "0019) "}
var nls = []string{"\n", "\n", "\n", "\r\n", "\r"}

// Lines is G2: line-structured documents with container prefixes that are
// re-applied after every embedded line ending.
func Lines() *rapid.Generator[[]byte] {
	return rapid.Custom(func(t *rapid.T) []byte {
		var out []byte
		nl := nls[rapid.IntRange(0, len(nls)-1).Draw(t, "nl")]
		prefix := ""
		nlines := rapid.IntRange(1, 8).Draw(t, "lines")
		for i := 0; i < nlines; i++ {
			if rapid.IntRange(0, 5).Draw(t, "chg") == 0 {
				prefix = prefixes[rapid.IntRange(0, len(prefixes)-1).Draw(t, "prefix")]
			}
			line := prefix
			if rapid.IntRange(0, 2).Draw(t, "st") == 0 {
				line += Starts[rapid.IntRange(0, len(Starts)-1).Draw(t, "start")]
			}
			k := rapid.IntRange(0, 5).Draw(t, "k")
			for j := 0; j < k; j++ {
				if rapid.IntRange(0, 4).Draw(t, "cons") == 0 {
					line += construct(t)
				} else {
					line += Inl[rapid.IntRange(0, len(Inl)-1).Draw(t, "inl")]
				}
				if rapid.IntRange(0, 2).Draw(t, "sp") == 0 {
					line += " "
				}
			}
			if rapid.IntRange(0, 7).Draw(t, "empty") == 0 {
				line = ""
			}
			for _, c := range []byte(line) {
				if c == '\n' {
					out = append(out, nl...)
					out = append(out, prefix...)
				} else {
					out = append(out, c)
				}
			}
			if i < nlines-1 || rapid.Bool().Draw(t, "finalnl") {
				out = append(out, nl...)
			}
		}
		return out
	})
}

// SplitLines splits on LF, CR and CRLF, keeping the line endings.
func SplitLines(b []byte) [][]byte {
	var lines [][]byte
	start := 0
	for i := 0; i < len(b); i++ {
		switch b[i] {
		case '\n':
			lines = append(lines, b[start:i+1])
			start = i + 1
		case '\r':
			if i+1 < len(b) && b[i+1] == '\n' {
				i++
			}
			lines = append(lines, b[start:i+1])
			start = i + 1
		}
	}
	if start < len(b) {
		lines = append(lines, b[start:])
	}
	return lines
}

// Extra holds additional corpus entries (minimised regression inputs) used by
// the mutation generator next to the spec examples.
var Extra = []string{
	"- # <b>\n  foo", "# w</b> ##", "> ## [t](</u>\n>    ", "[a\nb]: /x\n\n[r][a\nb]", "# f#", "a\\\nb", "foo \n bar",
	"![\" onerror=\"alert(1)](x)", "![&#x2d;](/u)", "![](/u)", "[x](%GG)", "&#xG;", "&notit;", "    a\n    ", "> [r]: /u\n> =",
	"x*_*_*a*ax", "**_**_a_", "*\fa*", "<!--> <script>", "<![CDATA[ > <script>", "<div>\n<3 <script>", "[ foo]: /u\n\n[foo]",
	"> a *b\n> c* d", "\\+ a", "1\\. a", "a\\![b](/u)", "[x](/u \"a\\\"b\")", "\\é", "+ [t](</u>'ti\n   tle')", ">[a\n>b]: /u\\\n>x",
	"[![[x](y)](z)](w)", "<DIV>\n<XMP>", "<XMP>\n<DIV>\n", "  > q", ">  > q", "[r]: /u\n\n![r][]",
	"1. a\n\n   b\n2. c", "- a\n  - b\n\n    c\n- d", "```\n`` `\n```", "~~~ a`b\nx\n~~~", "<pre>\n\nx</pre>\ny", "a\n===\nb\n---", "[r]: /u\n1.\n---",
	"\x00", "a\x00\x00b\r\n\r\n\x00", "\tfoo\n\n\tbar", "-\tfoo\n\n\tbar", ">\t\tfoo", "- a\n\n\n  b", "*  *  *", "1) a\n2. b", "<a href=\"x\ny\">",
}

// Corpus is G3: a spec example or saved regression input with 0-3 mutations.
func Corpus() *rapid.Generator[[]byte] {
	return rapid.Custom(func(t *rapid.T) []byte {
		pick := func(label string) []byte {
			k := rapid.IntRange(0, len(Spec)+len(Extra)-1).Draw(t, label)
			if k < len(Spec) {
				return []byte(Spec[k].Markdown)
			}
			return []byte(Extra[k-len(Spec)])
		}
		doc := append([]byte(nil), pick("doc")...)
		nm := rapid.IntRange(0, 3).Draw(t, "nmut")
		for m := 0; m < nm; m++ {
			lines := SplitLines(doc)
			switch rapid.IntRange(0, 9).Draw(t, "mut") {
			case 0: // delete a line
				if len(lines) > 0 {
					i := rapid.IntRange(0, len(lines)-1).Draw(t, "li")
					lines = append(lines[:i:i], lines[i+1:]...)
					doc = join(lines)
				}
			case 1: // duplicate a line
				if len(lines) > 0 {
					i := rapid.IntRange(0, len(lines)-1).Draw(t, "li")
					var nl [][]byte
					nl = append(nl, lines[:i+1]...)
					nl = append(nl, lines[i])
					nl = append(nl, lines[i+1:]...)
					doc = join(nl)
				}
			case 2: // swap two lines
				if len(lines) > 1 {
					i := rapid.IntRange(0, len(lines)-1).Draw(t, "li")
					j := rapid.IntRange(0, len(lines)-1).Draw(t, "lj")
					lines[i], lines[j] = lines[j], lines[i]
					doc = join(lines)
				}
			case 3: // splice another example
				other := pick("other")
				if rapid.Bool().Draw(t, "blank") {
					doc = append(doc, '\n')
				}
				doc = append(doc, other...)
			case 4: // wrap in a quote or list item
				pre, cont := "> ", "> "
				switch rapid.IntRange(0, 3).Draw(t, "wrap") {
				case 1:
					pre, cont = "- ", "  "
				case 2:
					pre, cont = "1. ", "   "
				case 3:
					pre, cont = ">", ">"
				}
				var nd []byte
				for i, l := range lines {
					if i == 0 {
						nd = append(nd, pre...)
					} else {
						nd = append(nd, cont...)
					}
					nd = append(nd, l...)
				}
				doc = nd
			case 5: // change line endings
				style := rapid.IntRange(0, 1).Draw(t, "le")
				s := strings.ReplaceAll(string(doc), "\r\n", "\n")
				if style == 0 {
					s = strings.ReplaceAll(s, "\n", "\r\n")
				} else {
					s = strings.ReplaceAll(s, "\n", "\r")
				}
				doc = []byte(s)
			case 6, 7: // insert a fragment
				off := rapid.IntRange(0, len(doc)).Draw(t, "off")
				var fr string
				if rapid.Bool().Draw(t, "fk") {
					fr = Frags[rapid.IntRange(0, len(Frags)-1).Draw(t, "fr")]
				} else {
					fr = Inl[rapid.IntRange(0, len(Inl)-1).Draw(t, "fr")]
				}
				nd := append([]byte(nil), doc[:off]...)
				nd = append(nd, fr...)
				nd = append(nd, doc[off:]...)
				doc = nd
			case 8: // truncate
				if len(doc) > 0 {
					doc = doc[:rapid.IntRange(0, len(doc)-1).Draw(t, "cut")]
				}
			case 9: // delete a byte range
				if len(doc) > 1 {
					i := rapid.IntRange(0, len(doc)-1).Draw(t, "di")
					j := rapid.IntRange(i, min(len(doc), i+6)).Draw(t, "dj")
					doc = append(doc[:i:i], doc[j:]...)
				}
			}
		}
		return doc
	})
}

func join(lines [][]byte) []byte {
	var out []byte
	for _, l := range lines {
		out = append(out, l...)
	}
	return out
}

// Model is G4 as a byte generator: the serialization of a generated abstract
// document under generated spelling choices (deep, well-formed nesting).
func Model() *rapid.Generator[[]byte] {
	return rapid.Custom(func(t *rapid.T) []byte {
		ch := model.RapidChooser{T: t}
		g := &model.Gen{C: ch, Sz: model.Small}
		doc := g.Doc()
		return []byte((&model.Ser{C: ch}).Serialize(doc))
	})
}

// Doc is the standard mix of G1, G2, G3 and G4 (45/25/20/10).
func Doc() *rapid.Generator[[]byte] {
	s, l, c, m := Soup(), Lines(), Corpus(), Model()
	return rapid.Custom(func(t *rapid.T) []byte {
		switch k := rapid.IntRange(0, 19).Draw(t, "g"); {
		case k < 9:
			return s.Draw(t, "soup")
		case k < 14:
			return l.Draw(t, "lines")
		case k < 18:
			return c.Draw(t, "corpus")
		default:
			return m.Draw(t, "model")
		}
	})
}

// Long is G1's "long mode": one fragment (or a short pattern) repeated to
// between lo and hi bytes, to cross the streaming parser's 8 KiB read chunk and
// to exercise deep nesting.
func Long(lo, hi int) *rapid.Generator[[]byte] {
	pats := []string{"[", "*", "_", "`", ">", "> ", "- ", "<", "![", "](", "a", "\x00", "\r", "\r\n", "\n", "é", "*a ", "[a](", "<a ", "&amp;", "\\", "a\n", "a\r\n", "a\r", " ", "\t", "1. ", "**a", "__a ", "`a``", "<!--", "[a]: /u\n", "> - ", "#", "- a\n"}
	return rapid.Custom(func(t *rapid.T) []byte {
		size := rapid.IntRange(lo, hi).Draw(t, "size")
		var pat []byte
		np := rapid.IntRange(1, 3).Draw(t, "np")
		for i := 0; i < np; i++ {
			if rapid.IntRange(0, 3).Draw(t, "pk") == 0 {
				pat = append(pat, Frags[rapid.IntRange(0, len(Frags)-1).Draw(t, "pf")]...)
			} else {
				pat = append(pat, pats[rapid.IntRange(0, len(pats)-1).Draw(t, "pp")]...)
			}
		}
		if len(pat) == 0 {
			pat = []byte("a")
		}
		out := make([]byte, 0, size+len(pat)+32)
		// optional short head and tail so the repeated part sits inside something
		if rapid.Bool().Draw(t, "head") {
			out = append(out, Frags[rapid.IntRange(0, len(Frags)-1).Draw(t, "hf")]...)
		}
		for len(out) < size {
			out = append(out, pat...)
		}
		if rapid.Bool().Draw(t, "tail") {
			out = append(out, Frags[rapid.IntRange(0, len(Frags)-1).Draw(t, "tf")]...)
		}
		return out
	})
}

// Classify returns cheap syntactic labels of an input, for the evidence
// histograms.
func Classify(in []byte) []string {
	var l []string
	hasNUL, hasCR, hasLF, hasCRLF, hasHi, hasTab := false, false, false, false, false, false
	for i, c := range in {
		switch {
		case c == 0:
			hasNUL = true
		case c == '\r':
			if i+1 < len(in) && in[i+1] == '\n' {
				hasCRLF = true
			} else {
				hasCR = true
			}
		case c == '\n':
			if i == 0 || in[i-1] != '\r' {
				hasLF = true
			}
		case c >= 0x80:
			hasHi = true
		case c == '\t':
			hasTab = true
		}
	}
	if hasNUL {
		l = append(l, "has_nul")
	}
	if hasCR {
		l = append(l, "has_lone_cr")
	}
	if hasCRLF {
		l = append(l, "has_crlf")
	}
	if hasLF {
		l = append(l, "has_lf")
	}
	if hasHi {
		l = append(l, "has_non_ascii")
	}
	if hasTab {
		l = append(l, "has_tab")
	}
	if n := len(in); n > 0 && in[n-1] != '\n' && in[n-1] != '\r' {
		l = append(l, "no_final_newline")
	}
	return l
}

func min(a, b int) int {
	if a < b {
		return a
	}
	return b
}

// SeedCorpus is the starting corpus for the native fuzz targets: the spec
// examples, the saved regression inputs and hostile constants.
func SeedCorpus() [][]byte {
	var out [][]byte
	for i, e := range Spec {
		if i%4 == 0 {
			out = append(out, []byte(e.Markdown))
		}
	}
	for _, e := range Extra {
		out = append(out, []byte(e))
	}
	for _, p := range Payloads {
		out = append(out, []byte(p))
	}
	return out
}

// Deep builds trees that are deep or wide by construction: up to 48 levels of
// nested quotes and list items around a body whose inline content nests
// emphasis, images and links up to 40 levels, or holds up to 150 sibling
// inlines, items or blocks. Anything indexed by depth or by sibling count (a
// traversal stack, an indent stack, a recursion) is crossed well past any
// power-of-two capacity by these documents.
func Deep() *rapid.Generator[[]byte] {
	markers := []string{"> ", ">", "- ", "1. ", "* ", "10) ", "+ "}
	return rapid.Custom(func(t *rapid.T) []byte {
		d := rapid.IntRange(0, 48).Draw(t, "depth")
		var first, cont strings.Builder
		for i := 0; i < d; i++ {
			m := markers[rapid.IntRange(0, len(markers)-1).Draw(t, "marker")]
			first.WriteString(m)
			if m[0] == '>' {
				cont.WriteString(m)
			} else {
				cont.WriteString(strings.Repeat(" ", len(m)))
			}
		}
		var body []string
		nb := rapid.IntRange(1, 3).Draw(t, "nbody")
		for i := 0; i < nb; i++ {
			switch rapid.IntRange(0, 5).Draw(t, "bodykind") {
			case 0: // nested emphasis / images / link
				k := rapid.IntRange(1, 40).Draw(t, "inldepth")
				var open, close []string
				for j := 0; j < k; j++ {
					switch rapid.IntRange(0, 4).Draw(t, "nest") {
					case 0:
						open, close = append(open, "*a"), append(close, "a*")
					case 1:
						open, close = append(open, " _b"), append(close, "b_ ")
					case 2:
						open, close = append(open, "**c "), append(close, " c**")
					case 3:
						open, close = append(open, "![i "), append(close, " i](/u)")
					default:
						open, close = append(open, "[l "), append(close, " l](/v)")
					}
				}
				var sb strings.Builder
				for _, o := range open {
					sb.WriteString(o)
				}
				sb.WriteString(" x ")
				for j := len(close) - 1; j >= 0; j-- {
					sb.WriteString(close[j])
				}
				body = append(body, sb.String())
			case 1: // wide paragraph
				w := rapid.IntRange(1, 150).Draw(t, "width")
				unit := []string{"*a* ", "[a](/u) ", "`c` ", "<b> ", "&amp; ", "a\\\n", "**s** _e_ "}[rapid.IntRange(0, 6).Draw(t, "unit")]
				for _, l := range strings.Split(strings.TrimRight(strings.Repeat(unit, w), " \n\\"), "\n") {
					body = append(body, l)
				}
			case 2: // wide list
				w := rapid.IntRange(1, 150).Draw(t, "items")
				for j := 0; j < w; j++ {
					body = append(body, "- i"+strconv.Itoa(j))
				}
			case 3: // many sibling blocks
				w := rapid.IntRange(1, 100).Draw(t, "blocks")
				for j := 0; j < w; j++ {
					body = append(body, "# h"+strconv.Itoa(j))
				}
			case 4:
				// a verbatim block of many lines: fenced code with an info string that
				// has children of its own (a reference, an escape), indented code, or
				// an HTML block
				w := rapid.IntRange(1, 150).Draw(t, "lines")
				switch rapid.IntRange(0, 2).Draw(t, "verbatim") {
				case 0:
					body = append(body, "```go &amp; a\\*b x")
					for j := 0; j < w; j++ {
						body = append(body, "code "+strconv.Itoa(j))
					}
					body = append(body, "```")
				case 1:
					body = append(body, "")
					for j := 0; j < w; j++ {
						body = append(body, "    code "+strconv.Itoa(j))
					}
					body = append(body, "")
				default:
					body = append(body, "<div>")
					for j := 0; j < w; j++ {
						body = append(body, "<b>"+strconv.Itoa(j)+"</b>")
					}
					body = append(body, "</div>", "")
				}
			default:
				body = append(body, "plain *text* here", "")
			}
		}
		var out strings.Builder
		for i, l := range body {
			if i == 0 {
				out.WriteString(first.String())
			} else {
				out.WriteString(cont.String())
			}
			out.WriteString(l)
			out.WriteString("\n")
		}
		return []byte(out.String())
	})
}

// LongDoc builds a document of lo..hi bytes that consists of many root blocks:
// two to six generated pieces repeated in turn, separated by blank lines (and
// a closing fence / comment end every so often, so that an unclosed construct
// in a piece does not swallow the rest). It is the many-blocks counterpart of
// Long, which mostly yields one huge block: here the streaming parser hands out
// hundreds of blocks while its buffer is refilled many times.
func LongDoc(lo, hi int) *rapid.Generator[[]byte] {
	d := Doc()
	return rapid.Custom(func(t *rapid.T) []byte {
		size := rapid.IntRange(lo, hi).Draw(t, "size")
		np := rapid.IntRange(2, 6).Draw(t, "npieces")
		var pieces [][]byte
		for i := 0; i < np; i++ {
			p := d.Draw(t, "piece")
			if len(p) > 1500 {
				p = p[:1500]
			}
			pieces = append(pieces, p)
		}
		sep := []string{"\n\n", "\r\n\r\n", "\n\n", "\n```\n\n", "\n-->\n\n", "\r\r"}[rapid.IntRange(0, 5).Draw(t, "sep")]
		out := make([]byte, 0, size+2048)
		for i := 0; len(out) < size; i++ {
			out = append(out, pieces[i%len(pieces)]...)
			out = append(out, sep...)
			if i%7 == 6 {
				out = append(out, "para "...)
				out = strconv.AppendInt(out, int64(i), 10)
				out = append(out, " &amp; [x]\n\n"...)
			}
		}
		// half of the documents get NULs at drawn places (single NULs, short runs,
		// and now and then a run of thousands): a NUL costs the parser two bytes of
		// padding, so the buffer arithmetic of a refill depends on where they fall
		if rapid.Bool().Draw(t, "nuls") {
			for k := rapid.IntRange(1, 6).Draw(t, "nnul"); k > 0; k-- {
				pos := rapid.IntRange(0, len(out)).Draw(t, "nulpos")
				n := []int{1, 1, 1, 2, 3, 40, 2731, 3000}[rapid.IntRange(0, 7).Draw(t, "nullen")]
				out = append(out[:pos], append(make([]byte, n), out[pos:]...)...)
			}
		}
		return out
	})
}

// RefsDoc builds documents in which the order of competing reference
// definitions matters: 2-7 pieces, each a definition of a label from a tiny
// pool (in varying case and inner white space, each with its own destination),
// a use of such a label (shortcut, collapsed, full, image) or a filler, each
// wrapped in 0-2 containers (quote, bullet item, ordered item), separated by
// blank lines or, where that still parses, directly adjacent. Tab-free.
func RefsDoc() *rapid.Generator[[]byte] {
	labels := []string{"a", "A", "b", "a b", "A  B", "ß", "SS"}
	return rapid.Custom(func(t *rapid.T) []byte {
		n := rapid.IntRange(2, 7).Draw(t, "npieces")
		var out strings.Builder
		for i := 0; i < n; i++ {
			lbl := labels[rapid.IntRange(0, len(labels)-1).Draw(t, "label")]
			var piece string
			switch rapid.IntRange(0, 7).Draw(t, "piece") {
			case 0, 1, 2:
				piece = fmt.Sprintf("[%s]: /d%d", lbl, i)
				if rapid.Bool().Draw(t, "title") {
					piece += fmt.Sprintf(" 't%d'", i)
				}
			case 3:
				piece = "[" + lbl + "]"
			case 4:
				piece = "[text][" + lbl + "] and [" + lbl + "][]"
			case 5:
				piece = "![" + lbl + "] x"
			case 6:
				piece = "# h [" + lbl + "]"
			default:
				piece = "filler"
			}
			// wrap in containers; continuation lines do not occur (one line per piece)
			for d, nd := 0, rapid.IntRange(0, 2).Draw(t, "wrap"); d < nd; d++ {
				piece = []string{"> ", "- ", "1. ", ">", "+ "}[rapid.IntRange(0, 4).Draw(t, "container")] + piece
			}
			out.WriteString(piece)
			out.WriteString("\n")
			if rapid.IntRange(0, 3).Draw(t, "blank") != 0 {
				out.WriteString("\n")
			}
		}
		return []byte(out.String())
	})
}

// LongLabelDoc builds a definition and uses of a label whose length is next to
// the 999-character limit (985..1003 characters between the brackets, line
// endings included), written on one to five lines. Tab-free; starts with '['.
func LongLabelDoc() *rapid.Generator[[]byte] {
	return rapid.Custom(func(t *rapid.T) []byte {
		n := rapid.IntRange(985, 1003).Draw(t, "labellen")
		if rapid.IntRange(0, 2).Draw(t, "exact") == 0 {
			n = []int{997, 998, 999, 1000}[rapid.IntRange(0, 3).Draw(t, "exactlen")]
		}
		lines := rapid.IntRange(1, 5).Draw(t, "labellines")
		lab := []byte(strings.Repeat("a", n))
		// line endings replace characters at distinct interior positions, never adjacent
		// (a blank line would end the paragraph) and never first or last
		used := map[int]bool{}
		for i := 1; i < lines; i++ {
			p := rapid.IntRange(2, n-3).Draw(t, "breakpos")
			if used[p-1] || used[p] || used[p+1] {
				continue
			}
			used[p] = true
			lab[p] = '\n'
		}
		if rapid.Bool().Draw(t, "spaces") {
			for i := 5; i < n-5; i += 37 {
				if lab[i] == 'a' && lab[i-1] == 'a' && lab[i+1] == 'a' {
					lab[i] = ' '
				}
			}
		}
		l := string(lab)
		var sb strings.Builder
		sb.WriteString("[" + l + "]: /u\n\n")
		switch rapid.IntRange(0, 2).Draw(t, "use") {
		case 0:
			sb.WriteString("[" + l + "]\n")
		case 1:
			sb.WriteString("[x][" + l + "]\n")
		default:
			sb.WriteString("[" + l + "][]\n")
		}
		return []byte(sb.String())
	})
}
