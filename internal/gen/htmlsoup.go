package gen

import (
	"bytes"

	"pgregory.net/rapid"
)

// HTMLFrags are raw-HTML-heavy fragments: comments in every abrupt form,
// CDATA, declarations, processing instructions, stray '<', mixed-case and
// upper-case names (of equal lengths, so that a reused lower-casing buffer
// shows), attributes containing '>', raw-text elements.
var HTMLFrags = []string{
	"<!-->", "<!--->", "<!-- -- -->", "--!>", "-->", "<!--", "<![CDATA[", "]]>", "<!DOCTYPE x>", "<!x", "<?php", "?>", "<3 ", "<script>", "<SCRIPT>", "<ScRiPt x=\"y\">", "</script ", "</script>",
	"<style>", "<title>", "<textarea>", "<xmp>", "<iframe src=x>", "<noembed>", "<noframes>", "<plaintext>", "<div>", "</div>", "<a href=\">\">", "<a title='>' >", "<noscript>", "</noscript>", "<b>", "<pre>", "</pre>",
	"\n", "\n", "\n\n", " ", "x", "foo", "<", ">", "<<", "<!", "<script/>", "<script\n>", "<script", "<style ", "\"", "'", "=", "<a <script>", "<a x=\"<style>\">", "<svg>", "<math>", "</", "<//", "<p>", "<img src=x>",
	"> ", "- ", "    ", "`", "```\n", "*", "[", "](", "&lt;", "&#60;script>", "\\<script>", "<\\script>", "<scr\nipt>", "<Title>", "<TEXTAREA>", "<xMp>", "<script\t>", "<script\f>", "<script\x00>", "<script:x>", "<scriptx>", "<x-script>",
	// names that are no filtered name in ASCII case folding but would be one under
	// Unicode lower-casing (U+0130 -> i, U+212A -> k)
	"<scrİpt>", "<tİtle>", "<SCRİPT>", "<dİv>", "<lİ>", "</scrİpt>", "<Kbd>", "<xmK>",
	"<DIV>", "<XMP>", "<PRE>", "<B>", "<I>", "<EM>", "<STYLE>", "<TITLE>", "<ABBR>", "<SPAN>", "<Div>", "<Xmp>", "</XMP>", "</DIV>", "<IFRAME>", "<SCRIPt>", "<TABLE>", "<STRONG>",
}

// HTMLSoup draws 1-14 raw-HTML-heavy fragments.
func HTMLSoup() *rapid.Generator[[]byte] {
	return rapid.Custom(func(t *rapid.T) []byte {
		n := rapid.IntRange(1, 14).Draw(t, "n")
		var out []byte
		for i := 0; i < n; i++ {
			k := rapid.IntRange(0, len(HTMLFrags)+1).Draw(t, "hf")
			if k >= len(HTMLFrags) {
				// a tag with a name of drawn length (open, closing, or unfinished)
				l := rapid.IntRange(1, 80).Draw(t, "namelen")
				name := bytes.Repeat([]byte{"aSx-"[rapid.IntRange(0, 2).Draw(t, "namech")]}, l)
				// characters that HTML allows in a tag name after its first letter
				// although CommonMark's inline tags do not (they occur in HTML blocks)
				for k, n := 0, rapid.IntRange(0, 3).Draw(t, "odd"); k < n && l > 1; k++ {
					odd := []string{"_", "[", "]", "\\", "^", "@", ".", ":", "é", "İ", "\x01", "Z", "9"}[rapid.IntRange(0, 12).Draw(t, "oddch")]
					at := rapid.IntRange(1, l-1).Draw(t, "oddat")
					name = append(append(append([]byte{}, name[:at]...), odd...), name[at:]...)
				}
				out = append(out, []string{"<", "</", "<"}[rapid.IntRange(0, 2).Draw(t, "open")]...)
				out = append(out, name...)
				out = append(out, []string{">", " x>", "\n", "<"}[rapid.IntRange(0, 3).Draw(t, "close")]...)
				continue
			}
			out = append(out, HTMLFrags[k]...)
		}
		return out
	})
}
