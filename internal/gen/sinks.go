package gen

import (
	"strings"

	"pgregory.net/rapid"
)

// Payloads are hostile strings placed into sinks: attribute breakers, tag
// openers, malformed references, control bytes.
var Payloads = []string{
	`" onerror="alert(1)`, `'><script>alert(1)</script>`, `&#x22;`, `&quot;`, `&#34`, `javascript:alert(1)`, `%22`, "\n", "\x00", "\xff", "<", ">", "&", "&amp",
	`&lt;script&gt;`, `\"`, "`", "]", ")", `"`, "'", `<img src=x onerror=y>`, `--><script>`, `]]>`, `&notit;`, `&#xG;`, `&#0;`, `&#xD800;`, `&#1114112;`,
	`&copy`, `&copy;`, `&#35;`, `&AMP;`, `&x;`, `&;`, `&#;`, `&#x;`, `%GG`, `%`, `%2`, ` `, `\`, `\\`, `é`, `"><b>`, `' onmouseover='x`, "\t", "\r", "a b", `<!--`, `</code></pre><script>`,
	"```", "~~~", `<a href="x">`, `&lt`, `&gt;`, `&#60;`, `&#x3c;script&#x3e;`, `[x](y)`, `![x](y)`, `*x*`, "\x7f", "\x01", "\xc3", "&#38;#60;", "&amp;lt;",
	"&#150;", "&#x80;", "&#159;", "&#127;", "&#x9F;", "%4", "/x%f", "caf\u00e9", "a|b|", "\U00010100",
	"&#32;", "&Tab;", "&NewLine;", "&nbsp;", "&#9;", "&#10;", "a&#32;b c", "&#<1;", "&#x<a;", "&#\"1;", "/p?q=<script>", "<>", "a<b", "x>y",
}

// Sinks are templates with one hole (the byte 0x01 marks it is avoided: the
// hole is the string "§") for each place where text reaches an attribute or an
// element.
var Sinks = []string{
	"§", "a § b", "`§`", "`` § ``", "```\n§\n```", "``` §\nx\n```", "~~~ §\nx\n~~~", "    §", "[t](§)", "[t](<§>)", "[r]: §\n\n[r]", "[r]: <§>\n\n[r]",
	"[t](/u \"§\")", "[t](/u '§')", "[t](/u (§))", "[r]: /u \"§\"\n\n[r]", "[r]: /u\n'§'\n\n[t][r]", "![§](/u)", "![a](/u \"§\")", "![§][r]\n\n[r]: /u", "![a](§)",
	"<http://a/§>", "<§@b.c>", "<a§@b.c>", "§. x", "1§. x", "# §", "§\n===", "[§](/u)", "[§]: /u\n\n[§]", "<a href=\"§\">", "<div>§</div>", "<div>\n§\n</div>", "*§*", "**§**",
	"> §", "- §", "1. §", "> - `§`", "[![§](/i)](/u)", "![[§](/u)](/i)", "![*§*](/i \"§\")", "[t](/u\n\"§\")", "> [t](</u>\n> '§')", "![a\n§](/u)", "&§;", "&#§;", "&#x§;",
	"<§>", "</§>", "<!-- § -->", "<?§?>", "<![CDATA[§]]>", "<!§>", "``` a§b\n```", "![§", "§](/u)", "[a]: /u \"§", "![a](/u \"x\" §)",
}

// Sink draws a document made of 1-3 sink templates filled with payloads (or
// soup fragments), optionally wrapped in a container.
func Sink() *rapid.Generator[[]byte] {
	return rapid.Custom(func(t *rapid.T) []byte {
		n := rapid.IntRange(1, 3).Draw(t, "nsinks")
		var parts []string
		for i := 0; i < n; i++ {
			tpl := Sinks[rapid.IntRange(0, len(Sinks)-1).Draw(t, "sink")]
			var pay string
			np := rapid.IntRange(1, 2).Draw(t, "npay")
			for j := 0; j < np; j++ {
				if rapid.IntRange(0, 4).Draw(t, "pk") == 0 {
					pay += Frags[rapid.IntRange(0, len(Frags)-1).Draw(t, "frag")]
				} else {
					pay += Payloads[rapid.IntRange(0, len(Payloads)-1).Draw(t, "pay")]
				}
			}
			parts = append(parts, strings.ReplaceAll(tpl, "§", pay))
		}
		sep := []string{"\n\n", "\n", " "}[rapid.IntRange(0, 2).Draw(t, "sep")]
		doc := strings.Join(parts, sep)
		switch rapid.IntRange(0, 5).Draw(t, "wrap") {
		case 0:
			doc = "> " + strings.ReplaceAll(doc, "\n", "\n> ")
		case 1:
			doc = "- " + strings.ReplaceAll(doc, "\n", "\n  ")
		}
		return []byte(doc)
	})
}

// DocOrSink mixes the standard document generator with the sink generator.
func DocOrSink() *rapid.Generator[[]byte] {
	d, s := Doc(), Sink()
	return rapid.Custom(func(t *rapid.T) []byte {
		if rapid.IntRange(0, 2).Draw(t, "ds") == 0 {
			return s.Draw(t, "sink")
		}
		return d.Draw(t, "doc")
	})
}
