package gen

import (
	"errors"
	"io"

	"pgregory.net/rapid"
)

// SchedReader delivers data according to a read schedule (G5): the i-th Read
// returns at most Sched[i] bytes (0 = an empty read); after the schedule is
// used up the rest is returned in one piece. If FaultAt >= 0 the reader fails
// with Err once FaultAt bytes have been delivered. EOFWithData makes the final
// data come back together with io.EOF.
type SchedReader struct {
	Data        []byte
	Sched       []int
	EOFWithData bool
	FaultAt     int
	Err         error

	pos, idx   int
	Reads      int
	AfterError int // Read calls made after an error (including EOF) was returned
	done       bool
}

var ErrInjected = errors.New("injected reader fault")

func NewSchedReader(data []byte, sched []int, eofWithData bool, faultAt int) *SchedReader {
	return &SchedReader{Data: data, Sched: sched, EOFWithData: eofWithData, FaultAt: faultAt, Err: ErrInjected}
}

func (r *SchedReader) Read(p []byte) (int, error) {
	r.Reads++
	if r.done {
		r.AfterError++
		if r.FaultAt >= 0 {
			return 0, r.Err
		}
		return 0, io.EOF
	}
	limit := len(r.Data)
	if r.FaultAt >= 0 && r.FaultAt < limit {
		limit = r.FaultAt
	}
	n := limit - r.pos
	if r.idx < len(r.Sched) {
		if r.Sched[r.idx] < n {
			n = r.Sched[r.idx]
		}
		r.idx++
	}
	if n > len(p) {
		n = len(p)
	}
	copy(p, r.Data[r.pos:r.pos+n])
	r.pos += n
	if r.pos >= limit {
		if r.FaultAt >= 0 {
			// deliver the fault: together with the last bytes or separately
			if r.EOFWithData || n == 0 {
				r.done = true
				return n, r.Err
			}
			return n, nil
		}
		if r.EOFWithData || n == 0 {
			r.done = true
			return n, io.EOF
		}
	}
	return n, nil
}

// interestingOffsets returns offsets at which a cut is likely to matter:
// between CR and LF, inside multi-byte characters, inside NUL runs, at line
// starts, and around the 8 KiB window edges.
func interestingOffsets(in []byte) []int {
	var offs []int
	for i := 1; i < len(in); i++ {
		a, b := in[i-1], in[i]
		switch {
		case a == '\r' && b == '\n':
			offs = append(offs, i)
		case a == '\r' || a == '\n':
			offs = append(offs, i)
		case b >= 0x80 && b < 0xc0:
			offs = append(offs, i)
		case a == 0 && b == 0:
			offs = append(offs, i)
		case a == 0 || b == 0:
			offs = append(offs, i)
		}
		if len(offs) > 64 {
			break
		}
	}
	for _, w := range []int{8191, 8192, 8193, 16384, 2730, 2731} {
		if w < len(in) {
			offs = append(offs, w)
		}
	}
	return offs
}

// Schedule draws a read schedule for an input: a list of chunk sizes.
func Schedule(t *rapid.T, in []byte) []int {
	mode := rapid.IntRange(0, 6).Draw(t, "smode")
	switch mode {
	case 6: // every data read followed by an empty read (many (0, nil) results in total)
		n := len(in)
		if n > 400 {
			n = 400
		}
		step := rapid.IntRange(1, 3).Draw(t, "zstep")
		var s []int
		for i := 0; i < n; i += step {
			s = append(s, step, 0)
			if rapid.IntRange(0, 9).Draw(t, "zz") == 0 {
				s = append(s, 0, 0)
			}
		}
		return s
	case 0: // single read
		return nil
	case 1: // all one-byte reads (bounded so long inputs stay cheap)
		n := len(in)
		if n > 300 {
			n = 300
		}
		s := make([]int, n)
		for i := range s {
			s[i] = 1
		}
		return s
	case 2: // cuts at interesting offsets
		offs := interestingOffsets(in)
		if len(offs) == 0 {
			return nil
		}
		k := rapid.IntRange(1, 4).Draw(t, "ncuts")
		cuts := map[int]bool{}
		for i := 0; i < k; i++ {
			cuts[offs[rapid.IntRange(0, len(offs)-1).Draw(t, "cut")]] = true
		}
		var s []int
		prev := 0
		for i := 1; i <= len(in); i++ {
			if cuts[i] {
				s = append(s, i-prev)
				prev = i
				if rapid.IntRange(0, 3).Draw(t, "zero") == 0 {
					s = append(s, 0)
				}
			}
		}
		return s
	default: // random sizes from the interesting set
		sizes := []int{0, 1, 1, 2, 3, 7, 64, 8191, 8192, 8193}
		n := rapid.IntRange(1, 12).Draw(t, "nchunks")
		s := make([]int, n)
		for i := range s {
			s[i] = sizes[rapid.IntRange(0, len(sizes)-1).Draw(t, "csize")]
		}
		return s
	}
}

// FaultOffset draws a failure point in 0..len(in), biased to interesting
// offsets.
func FaultOffset(t *rapid.T, in []byte) int {
	offs := interestingOffsets(in)
	if len(offs) > 0 && rapid.Bool().Draw(t, "fint") {
		return offs[rapid.IntRange(0, len(offs)-1).Draw(t, "foff")]
	}
	return rapid.IntRange(0, len(in)).Draw(t, "fk")
}
