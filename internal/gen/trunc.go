package gen

import "strings"

// WholeConstructs are complete inline and block constructs; TruncDocs cuts each of
// them after every byte, so that every construct is left unterminated at every
// point, as the last bytes of a document, of a heading's content, of a quote,
// of a list item and of an enclosing inline construct.
var WholeConstructs = []string{
	"<foo@bar.example.com>", "<a.b-c_d+e@x-y.z9>", "<http://a.b/c?d=e&f#g>", "<ab+c.d-e:x>", "<a href=\"x\" b='y' c=z d/>", "</a >", "<!-- c -->", "<?php x ?>", "<!DOCTYPE x>", "<![CDATA[x]]>",
	"[t](/u \"ti\")", "[t](</u v> 'ti')", "[t](/u(v) (ti))", "![i](/u)", "[t][r]", "[t][]", "[r]", "![i][r]", "[*e*`c`](<>)", "[a [b](/c) d](/e)",
	"`c`", "`` c` ``", "*e*", "**s**", "_e_", "__s__", "***x***", "*a **b** c*",
	"&amp;", "&#35;", "&#x22;", "&copy;", "&#1234567;", "&#xabcdef;", "\\*", "a\\\nb", "a  \nb", "é“猫",
	"[r]: /u \"t\"", "[r]:\n/u\n'ti\ntle'", "[r]: </u v> (t)", "[r]: /u\n[s]: /v",
	"```info\ncode\n```", "~~~\ncode\n~~~", "    code\n\n    more", "<div a=\"b\">\nx\n</div>", "<script>\nx\n</script>", "<!--\nc\n-->", "<?\nx\n?>", "<![CDATA[\nx\n]]>", "<!X\n>",
	"# h #", "h\n===", "h\n---", "* * *", "- a\n  b", "1. a\n2. b", "> q\nr", "10) x",
}

var truncDocs [][]byte

// TruncDocs returns every proper and improper prefix of every construct in
// every context (built once).
func TruncDocs() [][]byte {
	if truncDocs != nil {
		return truncDocs
	}
	indent := func(s, first, rest string) string {
		return first + strings.ReplaceAll(s, "\n", "\n"+rest)
	}
	seen := map[string]bool{}
	add := func(d string) {
		if !seen[d] {
			seen[d] = true
			truncDocs = append(truncDocs, []byte(d))
		}
	}
	for _, c := range WholeConstructs {
		for k := 1; k <= len(c); k++ {
			p := c[:k]
			add(p)
			add(p + "\n")
			add("[r]: /u\n\n" + p)
			add("x " + p)
			add(indent(p, "> ", "> "))
			add(indent(p, "- ", "  ") + "\n- z")
			add(indent(p, "1. > ", "   > "))
			add("*a [b " + p)
			add("![a `b` " + p + "\n\n[r]: /u")
			add(strings.ReplaceAll(p, "\n", "\r\n"))
			add(strings.ReplaceAll(p, "\n", "\r") + "\r")
			if !strings.Contains(p, "\n") {
				add("# " + p)
				add("## " + p + "\n\ntext\n")
				add("- # x " + p + "\n  y")
				add("x\n" + p + "\n===")
			}
		}
	}
	return truncDocs
}
