// Package findings holds the signatures of the open known findings: narrow
// predicates that decide whether a failing *generated* case is another instance
// of a listed root cause (and is therefore counted as suppressed instead of
// being reported again). Each signature is a conjunction of "which assertion
// failed" and a syntactic predicate on the input; anything that fails and
// matches no signature is a VIOLATION.
package findings

import (
	"verif/internal/harness"
)

type sig struct {
	id    string
	prop  string
	match func(check string, c harness.Case, msg string) bool
}

var sigs []sig

// Suppressor returns the suppressor for a property: it consults only the
// signatures whose finding is listed as open in known_findings.json.
func Suppressor(prop string) harness.Suppressor {
	open := map[string]bool{}
	for _, f := range harness.LoadFindings() {
		if f.Status == "open" && f.Property == prop && f.Sig != "" {
			open[f.Sig] = true
		}
	}
	if len(open) == 0 {
		return nil
	}
	return func(check string, c harness.Case, err error) (string, bool) {
		for _, s := range sigs {
			if s.prop == prop && open[s.id] && s.match(check, c, err.Error()) {
				return s.id, true
			}
		}
		return "", false
	}
}
