// Package findings holds the signatures of the open known findings: narrow
// predicates that decide whether a failing *generated* case is another instance
// of a listed root cause (and is therefore counted as suppressed instead of
// being reported again). Each signature is a conjunction of "which assertion
// failed" and a syntactic predicate on the input; anything that fails and
// matches no signature is a VIOLATION.
package findings

import (
	"regexp"
	"strconv"
	"strings"

	"verif/internal/harness"
)

type sig struct {
	id    string
	prop  string
	match func(check string, c harness.Case, msg string) bool
}

var sigs []sig

// Suppressor returns the suppressor for a property: it consults only the
// signatures whose finding is listed as open in known_findings.json.
func Suppressor(prop string) harness.Suppressor {
	open := map[string]bool{}
	for _, f := range harness.LoadFindings() {
		if f.Status == "open" && f.Property == prop && f.Sig != "" {
			open[f.Sig] = true
		}
	}
	if len(open) == 0 {
		return nil
	}
	return func(check string, c harness.Case, err error) (string, bool) {
		for _, s := range sigs {
			if s.prop == prop && open[s.id] && s.match(check, c, err.Error()) {
				return s.id, true
			}
		}
		return "", false
	}
}

// ---------------------------------------------------------------------------
// signatures

func init() {
	sigs = append(sigs, sig{id: "atx-backslash-space", prop: "C15", match: atxBackslashSpace})
}

var atxContentRE = regexp.MustCompile(`^ATX heading ("(?:[^"\\]|\\.)*"): recognizer says content ("(?:[^"\\]|\\.)*"), the spec's definition ("(?:[^"\\]|\\.)*")$`)

// atxBackslashSpace matches KF-01: the ATX recognizer keeps one space or tab
// after a content that ends in an odd number of backslashes (it treats
// backslash-space as an escaped space; the repository's own table test pins
// "# foo \  #" to that reading). Only this exact difference is matched: same
// level, and recognizer content == spec content + one space/tab, where the spec
// content ends with an odd run of backslashes.
func atxBackslashSpace(check string, c harness.Case, msg string) bool {
	if i := strings.IndexByte(msg, '\n'); i >= 0 {
		msg = msg[:i]
	}
	m := atxContentRE.FindStringSubmatch(msg)
	if m == nil {
		return false
	}
	got, err1 := strconv.Unquote(m[2])
	want, err2 := strconv.Unquote(m[3])
	if err1 != nil || err2 != nil {
		return false
	}
	if len(got) != len(want)+1 || got[:len(want)] != want || (got[len(want)] != ' ' && got[len(want)] != '\t') {
		return false
	}
	n := 0
	for n < len(want) && want[len(want)-1-n] == '\\' {
		n++
	}
	return n%2 == 1
}
