package findings

import (
	"testing"

	"verif/internal/harness"
)

// Each signature matches its own finding and rejects near misses.
func TestATXBackslashSpace(t *testing.T) {
	yes := []string{
		`ATX heading "# \\ ": recognizer says content "\\ ", the spec's definition "\\"`,
		`ATX heading "# foo \\  #\n": recognizer says content "foo \\ ", the spec's definition "foo \\"`,
		`ATX heading "## a\\\\\\\t": recognizer says content "a\\\\\\\t", the spec's definition "a\\\\\\"`,
	}
	no := []string{
		`ATX heading "# f#": recognizer says content "", the spec's definition "f#"`,
		`ATX heading "# a\\\\ ": recognizer says content "a\\\\ ", the spec's definition "a\\\\"`,
		`ATX heading "# a ": recognizer says content "a ", the spec's definition "a"`,
		`ATX heading "# \\  ": recognizer says content "\\  ", the spec's definition "\\"`,
		`ATX heading "# \\ ": recognizer says level 2, the spec's definition 1`,
		`ATX heading "# \\ x": recognizer says content "\\ ", the spec's definition "\\ x"`,
	}
	for _, m := range yes {
		if !atxBackslashSpace("enum_atx", harness.Case{}, m) {
			t.Errorf("signature should match %s", m)
		}
	}
	for _, m := range no {
		if atxBackslashSpace("enum_atx", harness.Case{}, m) {
			t.Errorf("signature should not match %s", m)
		}
	}
}
