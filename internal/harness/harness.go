// Package harness is the glue between the property packages (props/cNN), the
// rapid engine and the ./check driver: it reads the run configuration from the
// environment, pins rapid's flags, counts what was generated, writes replay
// files for failing cases and the per-process statistics the driver merges into
// evidence/<id>.json.
package harness

import (
	"encoding/base64"
	"encoding/json"
	"flag"
	"fmt"
	"hash/fnv"
	"os"
	"path/filepath"
	"runtime/debug"
	"sort"
	"strconv"
	"strings"
	"sync"
	"testing"
	"time"

	"pgregory.net/rapid"
)

// Case is one generated test case: the main input bytes plus named parameters.
// Everything in it is JSON-serialisable so that a failing case can be written
// out as a replay file and re-run without rapid.
type Case struct {
	In []byte            `json:"in"`
	I  map[string]int    `json:"i,omitempty"`
	S  map[string]string `json:"s,omitempty"`
	L  map[string][]int  `json:"l,omitempty"`
	B  map[string][]byte `json:"b,omitempty"`
}

func (c *Case) SetI(k string, v int) {
	if c.I == nil {
		c.I = map[string]int{}
	}
	c.I[k] = v
}
func (c *Case) SetS(k, v string) {
	if c.S == nil {
		c.S = map[string]string{}
	}
	c.S[k] = v
}
func (c *Case) SetL(k string, v []int) {
	if c.L == nil {
		c.L = map[string][]int{}
	}
	c.L[k] = v
}
func (c *Case) SetB(k string, v []byte) {
	if c.B == nil {
		c.B = map[string][]byte{}
	}
	c.B[k] = v
}

// Hash is a 64-bit FNV hash of the whole case (input and parameters).
func (c *Case) Hash() uint64 {
	h := fnv.New64a()
	h.Write(c.In)
	if len(c.I)+len(c.S)+len(c.L)+len(c.B) > 0 {
		j, _ := json.Marshal(struct {
			I map[string]int
			S map[string]string
			L map[string][]int
			B map[string][]byte
		}{c.I, c.S, c.L, c.B})
		h.Write([]byte{0xff})
		h.Write(j)
	}
	return h.Sum64()
}

// Describe renders the case for evidence samples and messages.
func (c *Case) Describe() string {
	var sb strings.Builder
	in := c.In
	if len(in) > 300 {
		fmt.Fprintf(&sb, "in[%d bytes]=%q...", len(in), in[:300])
	} else {
		fmt.Fprintf(&sb, "in=%q", in)
	}
	keys := []string{}
	for k := range c.I {
		keys = append(keys, k)
	}
	sort.Strings(keys)
	for _, k := range keys {
		fmt.Fprintf(&sb, " %s=%d", k, c.I[k])
	}
	keys = keys[:0]
	for k := range c.S {
		keys = append(keys, k)
	}
	sort.Strings(keys)
	for _, k := range keys {
		v := c.S[k]
		if len(v) > 120 {
			v = v[:120] + "..."
		}
		fmt.Fprintf(&sb, " %s=%q", k, v)
	}
	keys = keys[:0]
	for k := range c.L {
		keys = append(keys, k)
	}
	sort.Strings(keys)
	for _, k := range keys {
		v := c.L[k]
		if len(v) > 24 {
			fmt.Fprintf(&sb, " %s=%v...(%d)", k, v[:24], len(v))
		} else {
			fmt.Fprintf(&sb, " %s=%v", k, v)
		}
	}
	keys = keys[:0]
	for k := range c.B {
		keys = append(keys, k)
	}
	sort.Strings(keys)
	for _, k := range keys {
		v := c.B[k]
		if len(v) > 120 {
			fmt.Fprintf(&sb, " %s[%d bytes]=%q...", k, len(v), v[:120])
		} else {
			fmt.Fprintf(&sb, " %s=%q", k, v)
		}
	}
	return sb.String()
}

// Result is what a property function reports for one case.
type Result struct {
	Nontrivial bool
	Labels     []string
	Err        error // non-nil: the property is violated on this case
	// NoShrink: the violation is final as reported (a watchdog expiry leaves a
	// spinning goroutine behind; re-running the case to shrink it would cost
	// the watchdog time again for every attempt). The replay file is written
	// once and the rest of the check is skipped.
	NoShrink bool
}

// A Check is one executable statement of (part of) a property.
type Check struct {
	Name     string
	Quick    int // number of generated cases in the quick tier
	Thorough int // number of generated cases per shard in the thorough tier
	Gen      func(t *rapid.T) Case
	Prop     func(c Case) Result
	Rule     string // how cases are generated and what makes one non-trivial
}

// Config is the run configuration, read from the environment.
type Config struct {
	Prop     string
	Tier     string
	Seed     int64
	Shard    int
	Scale    float64
	Out      string // stats file written at exit
	Replays  string // directory for replay files
	Replay   string // replay file to re-run (TestReplay)
	Findings string // known_findings.json
	Only     string // run only this check
}

var (
	cfg     Config
	cfgOnce sync.Once
)

func Cfg() Config {
	cfgOnce.Do(func() {
		cfg.Tier = os.Getenv("VERIF_TIER")
		if cfg.Tier != "thorough" {
			cfg.Tier = "quick"
		}
		cfg.Seed = 1
		if s := os.Getenv("VERIF_SEED"); s != "" {
			if v, err := strconv.ParseInt(s, 10, 64); err == nil {
				cfg.Seed = v
			}
		}
		if s := os.Getenv("VERIF_SHARD"); s != "" {
			cfg.Shard, _ = strconv.Atoi(s)
		}
		cfg.Scale = 1
		if s := os.Getenv("VERIF_SCALE"); s != "" {
			if v, err := strconv.ParseFloat(s, 64); err == nil && v > 0 {
				cfg.Scale = v
			}
		}
		cfg.Out = os.Getenv("VERIF_OUT")
		cfg.Replays = os.Getenv("VERIF_REPLAYS")
		if cfg.Replays == "" {
			cfg.Replays = "/verif/replays"
		}
		cfg.Replay = os.Getenv("VERIF_REPLAY")
		cfg.Findings = os.Getenv("VERIF_FINDINGS")
		if cfg.Findings == "" {
			cfg.Findings = "/verif/known_findings.json"
		}
		cfg.Only = os.Getenv("VERIF_ONLY")
		cfg.Prop = os.Getenv("VERIF_PROP")
	})
	return cfg
}

// RapidSeed derives the rapid PRNG seed of this process from VERIF_SEED and the
// shard number. rapid treats 0 as "pick a random seed", so 0 is remapped.
func RapidSeed(checkIndex int) uint64 {
	c := Cfg()
	s := uint64(c.Seed)*1000003 + uint64(c.Shard)*7919 + uint64(checkIndex)*104729
	if s == 0 {
		s = 0x5EED
	}
	return s
}

// ---------------------------------------------------------------------------
// statistics

type checkStats struct {
	Evaluations int64            `json:"evaluations"`
	Requested   int64            `json:"requested"`
	Nontrivial  int64            `json:"nontrivial"` // non-distinct count
	Labels      map[string]int64 `json:"labels"`
	Rule        string           `json:"rule"`
	Exhaustive  bool             `json:"exhaustive,omitempty"`
	Bound       string           `json:"bound,omitempty"`
	WallS       float64          `json:"wall_s"`
	hashes      map[uint64]struct{}
	samples     map[uint64]string // the K smallest hashes of non-trivial cases
}

// Violation is one new (not known) violation found by this process.
type Violation struct {
	Check   string `json:"check"`
	Replay  string `json:"replay"`
	Message string `json:"message"`
}

// KnownHit is a known finding that still reproduces.
type KnownHit struct {
	ID   string `json:"id"`
	What string `json:"what"`
}

type procStats struct {
	Prop       string                 `json:"property"`
	Tier       string                 `json:"tier"`
	Seed       int64                  `json:"seed"`
	Shard      int                    `json:"shard"`
	Checks     map[string]*checkStats `json:"checks"`
	Samples    map[string][]string    `json:"samples"`
	HashFile   string                 `json:"hash_file"`
	Violations []Violation            `json:"violations"`
	Known      []KnownHit             `json:"known"`
	Notes      []string               `json:"notes"`
	Complete   bool                   `json:"complete"`
	Incon      []string               `json:"inconclusive"`
}

var (
	mu    sync.Mutex
	stats = procStats{Checks: map[string]*checkStats{}, Samples: map[string][]string{}}
)

const maxSamples = 6

func cs(name string) *checkStats {
	s := stats.Checks[name]
	if s == nil {
		s = &checkStats{Labels: map[string]int64{}, hashes: map[uint64]struct{}{}, samples: map[uint64]string{}}
		stats.Checks[name] = s
	}
	return s
}

// Count records one evaluated case.
func Count(check string, c *Case, nontrivial bool, labels ...string) {
	h := c.Hash()
	mu.Lock()
	defer mu.Unlock()
	s := cs(check)
	s.Evaluations++
	for _, l := range labels {
		s.Labels[l]++
	}
	if !nontrivial {
		return
	}
	s.Nontrivial++
	if _, ok := s.hashes[h]; ok {
		return
	}
	s.hashes[h] = struct{}{}
	// keep the samples with the smallest hashes: deterministic and unbiased
	// with respect to generation order
	if len(s.samples) < maxSamples {
		s.samples[h] = c.Describe()
		return
	}
	var maxH uint64
	for k := range s.samples {
		if k > maxH {
			maxH = k
		}
	}
	if h < maxH {
		delete(s.samples, maxH)
		s.samples[h] = c.Describe()
	}
}

// CountRaw records an evaluated case identified by a hash computed by the
// caller (used by the enumerators, which do not build Case values).
func CountRaw(check string, h uint64, nontrivial bool, sample func() string, labels ...string) {
	mu.Lock()
	defer mu.Unlock()
	s := cs(check)
	s.Evaluations++
	for _, l := range labels {
		s.Labels[l]++
	}
	if !nontrivial {
		return
	}
	s.Nontrivial++
	if _, ok := s.hashes[h]; ok {
		return
	}
	s.hashes[h] = struct{}{}
	if len(s.samples) < maxSamples {
		s.samples[h] = sample()
		return
	}
	var maxH uint64
	for k := range s.samples {
		if k > maxH {
			maxH = k
		}
	}
	if h < maxH {
		delete(s.samples, maxH)
		s.samples[h] = sample()
	}
}

// Label adds n to a label counter of a check without counting an evaluation.
func Label(check, label string, n int64) {
	mu.Lock()
	defer mu.Unlock()
	cs(check).Labels[label] += n
}

func SetRule(check, rule string) {
	mu.Lock()
	defer mu.Unlock()
	cs(check).Rule = rule
}

func SetExhaustive(check, bound string) {
	mu.Lock()
	defer mu.Unlock()
	s := cs(check)
	s.Exhaustive = true
	s.Bound = bound
}

func Note(format string, a ...any) {
	mu.Lock()
	defer mu.Unlock()
	stats.Notes = append(stats.Notes, fmt.Sprintf(format, a...))
}

// Inconclusive records that part of the run could not be decided (never a
// violation); the driver maps it to exit status 2.
func Inconclusive(format string, a ...any) {
	mu.Lock()
	defer mu.Unlock()
	stats.Incon = append(stats.Incon, fmt.Sprintf(format, a...))
}

// ---------------------------------------------------------------------------
// replay files

type ReplayFile struct {
	Property string `json:"property"`
	Check    string `json:"check"`
	Case     Case   `json:"case"`
	InputQ   string `json:"input_quoted"`
	Message  string `json:"message"`
	Seed     int64  `json:"seed"`
	Shard    int    `json:"shard"`
	Tier     string `json:"tier"`
}

func replayPath(prop, check string) string {
	c := Cfg()
	return filepath.Join(c.Replays, fmt.Sprintf("%s-%s-seed%d-shard%d.json", prop, check, c.Seed, c.Shard))
}

// WriteReplay (over)writes the replay file of a check with the given failing
// case. rapid re-runs the minimal case last, so after shrinking the file holds
// the minimal reproduction.
func WriteReplay(prop, check string, c *Case, msg string) string {
	p := replayPath(prop, check)
	os.MkdirAll(filepath.Dir(p), 0o755)
	rf := ReplayFile{Property: prop, Check: check, Case: *c, InputQ: fmt.Sprintf("%q", c.In), Message: msg,
		Seed: Cfg().Seed, Shard: Cfg().Shard, Tier: Cfg().Tier}
	j, _ := json.MarshalIndent(rf, "", " ")
	os.WriteFile(p, j, 0o644)
	return p
}

func LoadReplay(path string) (*ReplayFile, error) {
	b, err := os.ReadFile(path)
	if err != nil {
		return nil, err
	}
	var rf ReplayFile
	if err := json.Unmarshal(b, &rf); err != nil {
		return nil, err
	}
	return &rf, nil
}

func AddViolation(check, replay, msg string) {
	mu.Lock()
	defer mu.Unlock()
	for i, v := range stats.Violations {
		if v.Check == check && v.Replay == replay {
			stats.Violations[i].Message = msg
			return
		}
	}
	stats.Violations = append(stats.Violations, Violation{check, replay, msg})
}

// ---------------------------------------------------------------------------
// known findings

// Finding is one entry of known_findings.json.
type Finding struct {
	ID       string `json:"id"`
	Status   string `json:"status"` // "open" or "fixed"
	Property string `json:"property"`
	Check    string `json:"check"`
	Input    string `json:"input"`            // Go-quoted string (strconv.Quote syntax, without the quotes is also accepted)
	Case     *Case  `json:"case,omitempty"`   // optional full case (overrides Input)
	Commit   string `json:"commit,omitempty"` // for fixed entries
	What     string `json:"what"`
	Sig      string `json:"signature,omitempty"` // name of the signature function in internal/findings
}

type findingsFile struct {
	Findings []Finding `json:"findings"`
}

func LoadFindings() []Finding {
	b, err := os.ReadFile(Cfg().Findings)
	if err != nil {
		return nil
	}
	var ff findingsFile
	if err := json.Unmarshal(b, &ff); err != nil {
		panic("known_findings.json: " + err.Error())
	}
	return ff.Findings
}

func (f *Finding) AsCase() Case {
	if f.Case != nil {
		return *f.Case
	}
	s := f.Input
	if len(s) >= 2 && s[0] == '"' {
		if u, err := strconv.Unquote(s); err == nil {
			s = u
		}
	}
	return Case{In: []byte(s)}
}

// Suppressor decides whether a failing generated case is an instance of a
// listed open finding (same root cause). It is installed by the property
// package from internal/findings; nil means nothing is ever suppressed.
type Suppressor func(check string, c Case, err error) (id string, ok bool)

// ---------------------------------------------------------------------------
// running

// Plan is what a property package registers.
type Plan struct {
	Prop     string
	Checks   []Check
	Suppress Suppressor
	// After runs after the rapid-driven checks (enumerators and other
	// custom engines); it reports through Count/CountRaw and Fail.
	After func(t *testing.T)
	// Inflight: the case about to be evaluated is written to a file next to
	// the statistics file first, so that when the library brings the whole
	// test process down (a fatal runtime error cannot be recovered: stack
	// overflow, concurrent map access, a panic on another goroutine) the
	// driver finds the case that did it and reports it with a replay file.
	Inflight bool
}

// NoteInflight records the case that is about to run (Plan.Inflight).
func NoteInflight(prop, check string, c *Case) {
	cf := Cfg()
	if cf.Out == "" {
		return
	}
	rf := ReplayFile{Property: prop, Check: check, Case: *c, InputQ: fmt.Sprintf("%q", c.In), Seed: cf.Seed, Shard: cf.Shard, Tier: cf.Tier}
	j, _ := json.Marshal(rf)
	os.WriteFile(filepath.Join(filepath.Dir(cf.Out), fmt.Sprintf("inflight-shard-%d.json", cf.Shard)), j, 0o644)
}

// safeProp runs a property function, turning a panic in the harness or in the
// code under test into a violation result (a panic of the library is a
// violation of every property that reaches it; C04 owns it but every check
// reports it rather than crash the process).
func safeProp(f func(Case) Result, c Case) (r Result) {
	defer func() {
		if p := recover(); p != nil {
			r.Err = fmt.Errorf("panic: %v\n%s", p, debug.Stack())
		}
	}()
	return f(c)
}

// Run executes the replay tier (known findings, fixed findings) and then the
// generated tier of every check of the plan. It is called from the package's
// single TestProperty function.
func Run(t *testing.T, p Plan) {
	c := Cfg()
	mu.Lock()
	stats.Prop, stats.Tier, stats.Seed, stats.Shard = p.Prop, c.Tier, c.Seed, c.Shard
	mu.Unlock()
	if c.Replay != "" {
		runReplay(t, p)
		return
	}
	byName := map[string]*Check{}
	for i := range p.Checks {
		byName[p.Checks[i].Name] = &p.Checks[i]
		SetRule(p.Checks[i].Name, p.Checks[i].Rule)
	}
	// replay tier: listed findings (shard 0 only; they are deterministic)
	if c.Shard == 0 {
		for _, f := range LoadFindings() {
			if f.Property != p.Prop {
				continue
			}
			ck := byName[f.Check]
			if ck == nil {
				Note("finding %s names unknown check %q", f.ID, f.Check)
				continue
			}
			fc := f.AsCase()
			res := safeProp(ck.Prop, fc)
			switch f.Status {
			case "open":
				if res.Err != nil {
					mu.Lock()
					stats.Known = append(stats.Known, KnownHit{f.ID, f.What})
					mu.Unlock()
				} else {
					Note("open finding %s no longer reproduces", f.ID)
				}
			case "fixed":
				if res.Err != nil {
					path := filepath.Join(c.Replays, fmt.Sprintf("%s-%s-regression-%s.json", p.Prop, ck.Name, f.ID))
					rf := ReplayFile{Property: p.Prop, Check: ck.Name, Case: fc, InputQ: fmt.Sprintf("%q", fc.In),
						Message: "fixed finding " + f.ID + " has returned: " + res.Err.Error(), Seed: c.Seed, Tier: c.Tier}
					j, _ := json.MarshalIndent(rf, "", " ")
					os.MkdirAll(c.Replays, 0o755)
					os.WriteFile(path, j, 0o644)
					AddViolation(ck.Name, path, rf.Message)
					t.Errorf("fixed finding %s has returned: %v", f.ID, res.Err)
				}
			}
		}
	}
	for i := range p.Checks {
		ck := &p.Checks[i]
		if c.Only != "" && c.Only != ck.Name {
			continue
		}
		n := ck.Quick
		if c.Tier == "thorough" {
			n = ck.Thorough
		}
		n = int(float64(n) * c.Scale)
		if n < 1 {
			n = 1
		}
		if ck.Gen == nil {
			continue
		}
		idx := i
		t.Run(ck.Name, func(t *testing.T) {
			flag.Set("rapid.checks", strconv.Itoa(n))
			flag.Set("rapid.seed", strconv.FormatUint(RapidSeed(idx), 10))
			flag.Set("rapid.nofailfile", "true")
			flag.Set("rapid.shrinktime", "20s")
			mu.Lock()
			cs(ck.Name).Requested += int64(n)
			mu.Unlock()
			start := time.Now()
			stopped := false
			rapid.Check(t, func(rt *rapid.T) {
				cse := ck.Gen(rt)
				if stopped {
					return
				}
				if p.Inflight {
					NoteInflight(p.Prop, ck.Name, &cse)
				}
				res := safeProp(ck.Prop, cse)
				Count(ck.Name, &cse, res.Nontrivial, res.Labels...)
				if res.Err != nil {
					if p.Suppress != nil {
						if id, ok := p.Suppress(ck.Name, cse, res.Err); ok {
							Label(ck.Name, "suppressed_by_finding:"+id, 1)
							return
						}
					}
					path := WriteReplay(p.Prop, ck.Name, &cse, res.Err.Error())
					AddViolation(ck.Name, path, res.Err.Error())
					if res.NoShrink {
						stopped = true
					}
					rt.Fatalf("%s/%s violated: %v\ncase: %s", p.Prop, ck.Name, res.Err, cse.Describe())
				}
			})
			mu.Lock()
			cs(ck.Name).WallS += time.Since(start).Seconds()
			mu.Unlock()
		})
	}
	if p.After != nil && (c.Only == "" || c.Only == "after") {
		p.After(t)
	}
	mu.Lock()
	stats.Complete = true
	mu.Unlock()
	if p.Inflight && c.Out != "" {
		os.Remove(filepath.Join(filepath.Dir(c.Out), fmt.Sprintf("inflight-shard-%d.json", c.Shard)))
	}
}

// Fail records a violation found by a custom engine (enumerator): it writes
// the replay file, unless the case matches an open finding's signature.
func Fail(t *testing.T, p Plan, check string, c Case, err error) bool {
	if p.Suppress != nil {
		if id, ok := p.Suppress(check, c, err); ok {
			Label(check, "suppressed_by_finding:"+id, 1)
			return false
		}
	}
	path := WriteReplay(p.Prop, check, &c, err.Error())
	AddViolation(check, path, err.Error())
	t.Errorf("%s/%s violated: %v\ncase: %s", p.Prop, check, err, c.Describe())
	return true
}

func runReplay(t *testing.T, p Plan) {
	rf, err := LoadReplay(Cfg().Replay)
	if err != nil {
		t.Fatalf("cannot load replay file: %v", err)
	}
	for i := range p.Checks {
		if p.Checks[i].Name == rf.Check {
			res := safeProp(p.Checks[i].Prop, rf.Case)
			if res.Err != nil {
				AddViolation(rf.Check, Cfg().Replay, res.Err.Error())
				t.Errorf("%s/%s violated on replay: %v\ncase: %s", p.Prop, rf.Check, res.Err, rf.Case.Describe())
			} else {
				t.Logf("replay passes: %s", rf.Case.Describe())
			}
			mu.Lock()
			stats.Complete = true
			mu.Unlock()
			return
		}
	}
	t.Fatalf("replay file names unknown check %q", rf.Check)
}

// Main is the TestMain of every property package: it runs the tests and then
// writes the statistics file.
func Main(m *testing.M) {
	code := m.Run()
	Flush()
	os.Exit(code)
}

// Flush writes the statistics file (VERIF_OUT) and the file of distinct hashes.
func Flush() {
	c := Cfg()
	if c.Out == "" {
		return
	}
	mu.Lock()
	defer mu.Unlock()
	os.MkdirAll(filepath.Dir(c.Out), 0o755)
	// distinct hashes: "<check> <hex>" lines would be large; write binary per check
	hf := c.Out + ".hashes"
	f, err := os.Create(hf)
	if err == nil {
		names := make([]string, 0, len(stats.Checks))
		for n := range stats.Checks {
			names = append(names, n)
		}
		sort.Strings(names)
		for _, n := range names {
			s := stats.Checks[n]
			hs := make([]uint64, 0, len(s.hashes))
			for h := range s.hashes {
				hs = append(hs, h)
			}
			sort.Slice(hs, func(i, j int) bool { return hs[i] < hs[j] })
			fmt.Fprintf(f, "#%s %d\n", n, len(hs))
			buf := make([]byte, 0, 17*len(hs))
			for _, h := range hs {
				buf = strconv.AppendUint(buf, h, 16)
				buf = append(buf, '\n')
			}
			f.Write(buf)
			var smp []string
			keys := make([]uint64, 0, len(s.samples))
			for k := range s.samples {
				keys = append(keys, k)
			}
			sort.Slice(keys, func(i, j int) bool { return keys[i] < keys[j] })
			for _, k := range keys {
				smp = append(smp, s.samples[k])
			}
			stats.Samples[n] = smp
		}
		f.Close()
		stats.HashFile = hf
	}
	j, _ := json.MarshalIndent(&stats, "", " ")
	os.WriteFile(c.Out, j, 0o644)
}

// B64 is a helper for messages.
func B64(b []byte) string { return base64.StdEncoding.EncodeToString(b) }

// FuzzTarget wires one check of a plan into Go's native coverage-guided
// fuzzer (thorough tier only): the fuzzer mutates the input bytes, parameters
// stay at their defaults. seeds are added to the corpus next to the inputs of
// the listed findings. The driver turns a crasher file into a replay file.
func FuzzTarget(f *testing.F, p Plan, check string, seeds [][]byte) {
	var ck *Check
	for i := range p.Checks {
		if p.Checks[i].Name == check {
			ck = &p.Checks[i]
		}
	}
	if ck == nil {
		f.Fatalf("unknown check %q", check)
	}
	for _, s := range seeds {
		f.Add(s)
	}
	for _, fd := range LoadFindings() {
		if fd.Property == p.Prop {
			c := fd.AsCase()
			f.Add(c.In)
		}
	}
	f.Fuzz(func(t *testing.T, in []byte) {
		c := Case{In: in}
		res := safeProp(ck.Prop, c)
		if res.Err != nil {
			if p.Suppress != nil {
				if _, ok := p.Suppress(ck.Name, c, res.Err); ok {
					return
				}
			}
			t.Fatalf("%s/%s violated: %v\ncase: %s", p.Prop, ck.Name, res.Err, c.Describe())
		}
	})
}

// EnumerateInputs runs prop over a fixed list of inputs (an enumerated corpus),
// split over the shards of a thorough run; mk turns the i-th input into a case
// (nil: the input alone). It reports like the rapid-driven checks.
func EnumerateInputs(t *testing.T, p Plan, name string, inputs [][]byte, mk func(i int, in []byte) Case, prop func(Case) Result) {
	c := Cfg()
	shards := 1
	if c.Tier == "thorough" {
		shards = 16
	}
	for i, in := range inputs {
		if i%shards != c.Shard%shards {
			continue
		}
		cse := Case{In: in}
		if mk != nil {
			cse = mk(i, in)
		}
		res := safeProp(prop, cse)
		Count(name, &cse, res.Nontrivial, res.Labels...)
		if res.Err != nil {
			if Fail(t, p, name, cse, res.Err) {
				return
			}
		}
	}
	SetExhaustive(name, fmt.Sprintf("%d enumerated inputs", len(inputs)))
}
