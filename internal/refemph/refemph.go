// Package refemph is oracle O5: a transcription of the "process emphasis"
// procedure of the CommonMark 0.30 appendix without the openers_bottom
// optimisation, for inline content that consists only of text and * / _ runs.
package refemph

import (
	"strings"
	"unicode"
	"unicode/utf8"
)

type node struct {
	text     string // for text nodes
	tag      string // "em"/"strong" for containers
	children []*node
	// delimiter info (text nodes that are delimiter runs)
	delim             bool
	ch                byte
	count, orig       int
	canOpen, canClose bool
}

func isWS(r rune) bool {
	return r == ' ' || r == '\t' || r == '\n' || r == '\f' || r == '\r' || unicode.Is(unicode.Zs, r)
}
func isPunct(r rune) bool {
	if r < 0x80 {
		return strings.ContainsRune("!\"#$%&'()*+,-./:;<=>?@[\\]^_`{|}~", r)
	}
	return unicode.In(r, unicode.Pc, unicode.Pd, unicode.Pe, unicode.Pf, unicode.Pi, unicode.Po, unicode.Ps)
}

// RefEmphasis returns the HTML for inline content s consisting only of text and */_ runs.
func RefEmphasis(s string) string {
	var nodes []*node
	for i := 0; i < len(s); {
		if s[i] == '*' || s[i] == '_' {
			j := i
			for j < len(s) && s[j] == s[i] {
				j++
			}
			prev, next := ' ', ' '
			if i > 0 {
				prev, _ = utf8.DecodeLastRuneInString(s[:i])
			}
			if j < len(s) {
				next, _ = utf8.DecodeRuneInString(s[j:])
			}
			lf := !isWS(next) && (!isPunct(next) || isWS(prev) || isPunct(prev))
			rf := !isWS(prev) && (!isPunct(prev) || isWS(next) || isPunct(next))
			n := &node{delim: true, ch: s[i], count: j - i, orig: j - i}
			if s[i] == '*' {
				n.canOpen, n.canClose = lf, rf
			} else {
				n.canOpen = lf && (!rf || isPunct(prev))
				n.canClose = rf && (!lf || isPunct(next))
			}
			nodes = append(nodes, n)
			i = j
		} else {
			j := i
			for j < len(s) && s[j] != '*' && s[j] != '_' {
				j++
			}
			nodes = append(nodes, &node{text: s[i:j]})
			i = j
		}
	}
	// active marks which delimiter nodes are still on the delimiter stack.
	active := map[*node]bool{}
	for _, n := range nodes {
		if n.delim {
			active[n] = true
		}
	}
	ci := 0
	for ci < len(nodes) {
		c := nodes[ci]
		if !c.delim || !active[c] || !c.canClose || c.count == 0 {
			ci++
			continue
		}
		oi := -1
		for j := ci - 1; j >= 0; j-- {
			o := nodes[j]
			if !o.delim || !active[o] || o.ch != c.ch || !o.canOpen || o.count == 0 {
				continue
			}
			if (o.canClose || c.canOpen) && (o.orig+c.orig)%3 == 0 && !(o.orig%3 == 0 && c.orig%3 == 0) {
				continue
			}
			oi = j
			break
		}
		if oi < 0 {
			if !c.canOpen {
				active[c] = false
			}
			ci++
			continue
		}
		o := nodes[oi]
		use := 1
		tag := "em"
		if o.count >= 2 && c.count >= 2 {
			use, tag = 2, "strong"
		}
		o.count -= use
		c.count -= use
		inner := append([]*node(nil), nodes[oi+1:ci]...)
		for _, n := range inner {
			if n.delim {
				active[n] = false
			}
		}
		wrap := &node{tag: tag, children: inner}
		rest := append([]*node{wrap}, nodes[ci:]...)
		nodes = append(nodes[:oi+1:oi+1], rest...)
		ci = oi + 2 // position of closer
		if o.count == 0 {
			active[o] = false
			nodes = append(nodes[:oi:oi], nodes[oi+1:]...)
			ci--
		}
		if c.count == 0 {
			active[c] = false
			nodes = append(nodes[:ci:ci], nodes[ci+1:]...)
		}
	}
	var sb strings.Builder
	var emit func(ns []*node)
	emit = func(ns []*node) {
		for _, n := range ns {
			switch {
			case n.tag != "":
				sb.WriteString("<" + n.tag + ">")
				emit(n.children)
				sb.WriteString("</" + n.tag + ">")
			case n.delim:
				sb.WriteString(strings.Repeat(string(n.ch), n.count))
			default:
				sb.WriteString(n.text)
			}
		}
	}
	emit(nodes)
	return sb.String()
}
