// Package cmutil holds small helpers around the library under test.
package cmutil

import (
	"bytes"

	cm "zombiezen.com/go/commonmark"
)

// RenderDefault renders with the default renderer (RenderHTML).
func RenderDefault(in []byte) string {
	blocks, refs := cm.Parse(append([]byte(nil), in...))
	var buf bytes.Buffer
	cm.RenderHTML(&buf, blocks, refs)
	return buf.String()
}

// SafeBlocks renders the root blocks one by one with AppendBlock in safe mode
// (IgnoreRaw) and concatenates them, so the "\n\n" the renderer puts between
// root blocks never enters.
func SafeBlocks(blocks []*cm.RootBlock, refs cm.ReferenceMap) string {
	r := &cm.HTMLRenderer{ReferenceMap: refs, IgnoreRaw: true}
	var out []byte
	for _, b := range blocks {
		out = r.AppendBlock(out, b)
	}
	return string(out)
}

// Safe parses and renders in safe mode.
func Safe(in []byte) string {
	blocks, refs := cm.Parse(append([]byte(nil), in...))
	return SafeBlocks(blocks, refs)
}

// SafeSoft parses and renders in safe mode under the given soft-break behaviour.
func SafeSoft(in []byte, soft cm.SoftBreakBehavior) string {
	blocks, refs := cm.Parse(append([]byte(nil), in...))
	r := &cm.HTMLRenderer{ReferenceMap: refs, IgnoreRaw: true, SoftBreakBehavior: soft}
	var out []byte
	for _, b := range blocks {
		out = r.AppendBlock(out, b)
	}
	return string(out)
}

// LF maps CRLF and CR to LF.
func LF(s string) string {
	b := []byte(s)
	out := b[:0:0]
	for i := 0; i < len(b); i++ {
		if b[i] == '\r' {
			out = append(out, '\n')
			if i+1 < len(b) && b[i+1] == '\n' {
				i++
			}
			continue
		}
		out = append(out, b[i])
	}
	return string(out)
}

// CountLineEndings counts LF, CR and CRLF as one line ending each.
func CountLineEndings(b []byte) int {
	n := 0
	for i := 0; i < len(b); i++ {
		switch b[i] {
		case '\n':
			n++
		case '\r':
			n++
			if i+1 < len(b) && b[i+1] == '\n' {
				i++
			}
		}
	}
	return n
}
