// Package refrender is oracle O4: an independent, direct reading of a parsed
// tree through the public node API into the HTML the documentation assigns to
// it, as a token list, plus a lock-step matcher that compares the library's
// output bytes with that token list up to the spelling of character
// references (text and attribute values are compared entity-decoded, raw HTML
// regions byte for byte).
//
// It does not call Walk, NormalizeURI, or anything else from the renderer.
package refrender

import (
	"fmt"
	"html"
	"regexp"
	"strings"
	"unicode/utf8"

	cm "zombiezen.com/go/commonmark"
)

type TokKind int

const (
	TStart  TokKind = iota // renderer start tag
	TEnd                   // renderer end tag
	TText                  // escaped leaf text (decoded value in Text)
	TRaw                   // raw HTML copied from the source
	TPseudo                // a renderer tag whose "<" was escaped by FilterTag (decoded value in Text)
)

type Attr struct{ Name, Val string }

type Tok struct {
	Kind  TokKind
	Name  string
	Attrs []Attr
	Text  string
}

type Config struct {
	Soft      cm.SoftBreakBehavior
	IgnoreRaw bool
	Filter    func(name string) bool // nil: no filtering
}

type r struct {
	cfg  Config
	refs cm.ReferenceMap
	src  []byte
	out  []Tok
}

// NormURI is the reference percent-normaliser: unreserved and reserved
// characters and well-formed %XX escapes are kept, "%" otherwise becomes %25,
// everything else is percent-encoded as UTF-8.
func NormURI(s string) string {
	var sb strings.Builder
	bs := []byte(s)
	isHex := func(c byte) bool { return c >= '0' && c <= '9' || c >= 'a' && c <= 'f' || c >= 'A' && c <= 'F' }
	for i := 0; i < len(bs); {
		c := bs[i]
		switch {
		case c == '%' && i+2 < len(bs) && isHex(bs[i+1]) && isHex(bs[i+2]):
			sb.Write(bs[i : i+3])
			i += 3
		case c == '%':
			sb.WriteString("%25")
			i++
		case c < 0x80 && (c >= 'a' && c <= 'z' || c >= 'A' && c <= 'Z' || c >= '0' && c <= '9' || strings.IndexByte(";/?:@&=+$,-_.!~*'()#", c) >= 0):
			sb.WriteByte(c)
			i++
		default:
			rn, n := utf8.DecodeRune(bs[i:])
			var buf [4]byte
			m := utf8.EncodeRune(buf[:], rn)
			for _, b := range buf[:m] {
				fmt.Fprintf(&sb, "%%%02X", b)
			}
			i += n
		}
	}
	return sb.String()
}

func (r *r) start(name string, attrs ...Attr) {
	if r.cfg.Filter != nil && r.cfg.Filter(name) {
		var sb strings.Builder
		sb.WriteString("<" + name)
		for _, a := range attrs {
			sb.WriteString(" " + a.Name + `="` + a.Val + `"`)
		}
		sb.WriteString(">")
		r.out = append(r.out, Tok{Kind: TPseudo, Name: name, Text: sb.String()})
		return
	}
	r.out = append(r.out, Tok{Kind: TStart, Name: name, Attrs: attrs})
}

func (r *r) end(name string) {
	// the library asks the predicate about "/name" for end tags (the slice
	// passed starts after "<"), so a name-set predicate does not reject them;
	// predicates are given the string the library gives them
	if r.cfg.Filter != nil && r.cfg.Filter("/"+name) {
		r.out = append(r.out, Tok{Kind: TPseudo, Name: name, Text: "</" + name + ">"})
		return
	}
	r.out = append(r.out, Tok{Kind: TEnd, Name: name})
}

func (r *r) text(s string) {
	if s == "" {
		return
	}
	r.out = append(r.out, Tok{Kind: TText, Text: s})
}

func (r *r) block(b *cm.Block, parentTight bool) {
	switch b.Kind() {
	case cm.ParagraphKind:
		if !parentTight {
			r.start("p")
		}
		r.inlines(b.AsNode())
		if !parentTight {
			r.end("p")
		}
	case cm.ThematicBreakKind:
		r.start("hr")
	case cm.ATXHeadingKind, cm.SetextHeadingKind:
		h := fmt.Sprintf("h%d", b.HeadingLevel())
		r.start(h)
		r.inlines(b.AsNode())
		r.end(h)
	case cm.IndentedCodeBlockKind, cm.FencedCodeBlockKind:
		r.start("pre")
		var attrs []Attr
		if info := b.InfoString(); info != nil {
			if w := strings.Fields(info.Text(r.src)); len(w) > 0 {
				attrs = append(attrs, Attr{"class", "language-" + w[0]})
			}
		}
		r.start("code", attrs...)
		for i := 0; i < b.ChildCount(); i++ {
			c := b.Child(i).Inline()
			if c.Kind() == cm.InfoStringKind {
				continue
			}
			if c.Kind() == cm.SoftLineBreakKind {
				// the content of a code block is verbatim: the line ending of its
				// last line (a node the parser adds when the input ends without
				// one) is a newline whatever SoftBreakBehavior says
				if t := c.Text(r.src); t != "" {
					r.text(t)
				} else {
					r.text("\n")
				}
				continue
			}
			r.inline(c)
		}
		r.end("code")
		r.end("pre")
	case cm.BlockQuoteKind:
		r.start("blockquote")
		for i := 0; i < b.ChildCount(); i++ {
			r.block(b.Child(i).Block(), false)
		}
		r.end("blockquote")
	case cm.ListKind:
		name := "ul"
		var attrs []Attr
		if b.IsOrderedList() {
			name = "ol"
			if b.ChildCount() > 0 {
				if n := b.Child(0).Block().ListItemNumber(r.src); n >= 0 && n != 1 {
					attrs = append(attrs, Attr{"start", fmt.Sprint(n)})
				}
			}
		}
		r.start(name, attrs...)
		for i := 0; i < b.ChildCount(); i++ {
			r.block(b.Child(i).Block(), false)
		}
		r.end(name)
	case cm.ListItemKind:
		r.start("li")
		for j := 0; j < b.ChildCount(); j++ {
			r.block(b.Child(j).Block(), b.IsTightList())
		}
		r.end("li")
	case cm.HTMLBlockKind:
		if !r.cfg.IgnoreRaw {
			r.inlines(b.AsNode())
		}
	}
	// ListMarkerKind, LinkReferenceDefinitionKind: nothing
}

func (r *r) inlines(n cm.Node) {
	for i := 0; i < n.ChildCount(); i++ {
		r.inline(n.Child(i).Inline())
	}
}

func (r *r) altText(in *cm.Inline, sb *strings.Builder) {
	switch in.Kind() {
	case cm.TextKind, cm.CharacterReferenceKind:
		sb.WriteString(in.Text(r.src))
	case cm.IndentKind, cm.SoftLineBreakKind, cm.HardLineBreakKind:
		sb.WriteString(" ")
	case cm.LinkDestinationKind, cm.LinkTitleKind, cm.LinkLabelKind:
	default:
		for i := 0; i < in.ChildCount(); i++ {
			r.altText(in.Child(i), sb)
		}
	}
}

func (r *r) linkAttrs(in *cm.Inline, uriAttr string) []Attr {
	var dest, title string
	var hasTitle bool
	if ref := in.LinkReference(); ref != "" {
		d := r.refs[ref]
		dest, title, hasTitle = d.Destination, d.Title, d.TitlePresent
	} else {
		if x := in.LinkDestination(); x != nil {
			dest = x.Text(r.src)
		}
		if t := in.LinkTitle(); t != nil {
			title, hasTitle = t.Text(r.src), true
		}
	}
	attrs := []Attr{{uriAttr, NormURI(dest)}}
	if hasTitle {
		attrs = append(attrs, Attr{"title", title})
	}
	return attrs
}

func (r *r) inline(in *cm.Inline) {
	switch in.Kind() {
	case cm.TextKind, cm.CharacterReferenceKind:
		r.text(in.Text(r.src))
	case cm.RawHTMLKind:
		if !r.cfg.IgnoreRaw {
			r.out = append(r.out, Tok{Kind: TRaw, Text: in.Text(r.src)})
		}
	case cm.SoftLineBreakKind:
		switch r.cfg.Soft {
		case cm.SoftBreakHarden:
			r.start("br")
			r.text("\n")
		case cm.SoftBreakSpace:
			r.text(" ")
		default:
			r.text(in.Text(r.src))
		}
	case cm.HardLineBreakKind:
		r.start("br")
		r.text("\n")
	case cm.IndentKind:
		r.text(strings.Repeat(" ", in.IndentWidth()))
	case cm.EmphasisKind:
		r.start("em")
		r.inlines(in.AsNode())
		r.end("em")
	case cm.StrongKind:
		r.start("strong")
		r.inlines(in.AsNode())
		r.end("strong")
	case cm.CodeSpanKind:
		r.start("code")
		r.inlines(in.AsNode())
		r.end("code")
	case cm.LinkKind:
		r.start("a", r.linkAttrs(in, "href")...)
		for i := 0; i < in.ChildCount(); i++ {
			c := in.Child(i)
			switch c.Kind() {
			case cm.LinkDestinationKind, cm.LinkTitleKind, cm.LinkLabelKind:
			default:
				r.inline(c)
			}
		}
		r.end("a")
	case cm.ImageKind:
		attrs := r.linkAttrs(in, "src")
		var alt strings.Builder
		r.altText(in, &alt)
		attrs = append(attrs, Attr{"alt", alt.String()})
		r.start("img", attrs...)
	case cm.AutolinkKind:
		dest := ""
		if in.ChildCount() > 0 {
			dest = in.Child(0).Text(r.src)
		}
		href := NormURI(dest)
		if cm.IsEmailAddress(dest) {
			href = "mailto:" + href
		}
		r.start("a", Attr{"href", href})
		r.text(dest)
		r.end("a")
	case cm.HTMLTagKind:
		r.inlines(in.AsNode())
	}
}

// Block renders one block (root or nested) to tokens. parentTight says whether
// the block's parent is a tight list item.
func Block(cfg Config, refs cm.ReferenceMap, src []byte, b *cm.Block, parentTight bool) []Tok {
	rr := &r{cfg: cfg, refs: refs, src: src}
	rr.block(b, parentTight)
	return rr.out
}

// Canon renders tokens in a canonical one-token-per-line form in which
// adjacent text is merged and newline runs next to block-level tags are
// dropped (outside pre). Two token lists denote the same document up to
// insignificant inter-block whitespace iff their Canon strings are equal.
func Canon(toks []Tok) string {
	type ct struct {
		kind TokKind
		name string
		s    string
	}
	var out []ct
	for _, t := range toks {
		switch t.Kind {
		case TText, TPseudo:
			if len(out) > 0 && out[len(out)-1].kind == TText {
				out[len(out)-1].s += t.Text
			} else {
				out = append(out, ct{kind: TText, s: t.Text})
			}
		case TRaw:
			out = append(out, ct{kind: TRaw, s: t.Text})
		case TStart:
			var sb strings.Builder
			sb.WriteString("<" + t.Name)
			for _, a := range t.Attrs {
				fmt.Fprintf(&sb, " %s=%q", a.Name, a.Val)
			}
			sb.WriteString(">")
			out = append(out, ct{kind: TStart, name: t.Name, s: sb.String()})
		case TEnd:
			out = append(out, ct{kind: TEnd, name: t.Name, s: "</" + t.Name + ">"})
		}
	}
	var lines []string
	inPre := 0
	for i, t := range out {
		if t.kind == TStart && t.name == "pre" {
			inPre++
		}
		switch t.kind {
		case TText:
			s := t.s
			if inPre == 0 {
				if i == 0 || ((out[i-1].kind == TStart || out[i-1].kind == TEnd) && blockLevel[out[i-1].name]) {
					s = strings.TrimLeft(s, "\n")
				}
				if i == len(out)-1 || ((out[i+1].kind == TStart || out[i+1].kind == TEnd) && blockLevel[out[i+1].name]) {
					s = strings.TrimRight(s, "\n")
				}
			}
			if s != "" {
				lines = append(lines, fmt.Sprintf("T:%q", s))
			}
		case TRaw:
			lines = append(lines, fmt.Sprintf("R:%q", t.s))
		default:
			lines = append(lines, t.s)
		}
		if t.kind == TEnd && t.name == "pre" && inPre > 0 {
			inPre--
		}
	}
	return strings.Join(lines, "\n")
}

var blockLevel = map[string]bool{"p": true, "h1": true, "h2": true, "h3": true, "h4": true, "h5": true, "h6": true,
	"ul": true, "ol": true, "li": true, "blockquote": true, "pre": true, "hr": true}

var entityRE = regexp.MustCompile(`^&(#[0-9]{1,7}|#[xX][0-9a-fA-F]{1,6}|[A-Za-z][A-Za-z0-9]*);`)

// matchText consumes from out[pos:] an escaped spelling of want and returns
// the new position. In strict mode (leaf text) a raw '<', '>', '"' or an '&'
// that does not start a character reference is an error; in lenient mode
// (attribute-bearing pseudo tags) '>' and '"' may be raw.
func matchText(out string, pos int, want string, strict bool, what string) (int, error) {
	for len(want) > 0 {
		if pos >= len(out) {
			return pos, fmt.Errorf("%s: output ends, still expecting %q", what, clip(want))
		}
		c := out[pos]
		if c == '&' {
			m := entityRE.FindString(out[pos:])
			if m != "" {
				dec := html.UnescapeString(m)
				if dec != m {
					if !strings.HasPrefix(want, dec) {
						return pos, fmt.Errorf("%s: output has %q (= %q) at %d, expecting %q", what, m, dec, pos, clip(want))
					}
					want = want[len(dec):]
					pos += len(m)
					continue
				}
			}
			return pos, fmt.Errorf("%s: unescaped '&' at %d (%q), expecting %q", what, pos, clip(out[pos:]), clip(want))
		}
		if c == '<' || (strict && (c == '>' || c == '"')) {
			return pos, fmt.Errorf("%s: unescaped %q at %d (%q), expecting %q", what, c, pos, clip(out[pos:]), clip(want))
		}
		if c != want[0] {
			return pos, fmt.Errorf("%s: output has %q at %d (%q), expecting %q", what, c, pos, clip(out[pos:]), clip(want))
		}
		want = want[1:]
		pos++
	}
	return pos, nil
}

func clip(s string) string {
	if len(s) > 50 {
		return s[:50] + "..."
	}
	return s
}

// matchAttrVal consumes an attribute value up to the closing quote.
func matchAttrVal(out string, pos int, want string, what string) (int, error) {
	end := strings.IndexByte(out[pos:], '"')
	if end < 0 {
		return pos, fmt.Errorf("%s: unterminated attribute value", what)
	}
	raw := out[pos : pos+end]
	if strings.ContainsAny(raw, "<>") {
		return pos, fmt.Errorf("%s: unescaped angle bracket in attribute value %q", what, clip(raw))
	}
	// every & must start a character reference
	for i := 0; i < len(raw); i++ {
		if raw[i] == '&' {
			m := entityRE.FindString(raw[i:])
			if m == "" || html.UnescapeString(m) == m {
				return pos, fmt.Errorf("%s: unescaped '&' in attribute value %q", what, clip(raw))
			}
		}
	}
	if dec := html.UnescapeString(raw); dec != want {
		return pos, fmt.Errorf("%s: attribute value %q (decoded %q), expecting %q", what, clip(raw), clip(dec), clip(want))
	}
	return pos + end, nil
}

// FilterRawRef is the reference reading of the tag filter on one piece of raw
// HTML: every "<" or "</" that is followed by a tag name (an ASCII letter, then
// anything up to white space, "/" or ">") whose lower-cased name the predicate
// rejects has its "<" written as "&lt;"; nothing else changes.
func FilterRawRef(raw string, rejects func(string) bool) string {
	var sb strings.Builder
	for i := 0; i < len(raw); i++ {
		c := raw[i]
		if c != '<' {
			sb.WriteByte(c)
			continue
		}
		j := i + 1
		if j < len(raw) && raw[j] == '/' {
			j++
		}
		k := j
		if k < len(raw) && (raw[k] >= 'a' && raw[k] <= 'z' || raw[k] >= 'A' && raw[k] <= 'Z') {
			for k < len(raw) && !strings.ContainsRune(" \t\n\f\r/>", rune(raw[k])) {
				k++
			}
		}
		if k > j && rejects(asciiLower(raw[j:k])) {
			sb.WriteString("&lt;")
		} else {
			sb.WriteByte('<')
		}
	}
	return sb.String()
}

// asciiLower lower-cases A-Z only: HTML tag names are ASCII case-insensitive,
// and U+0130 or U+212A in a name are not the letters i and k.
func asciiLower(s string) string {
	b := []byte(s)
	for i, c := range b {
		if c >= 'A' && c <= 'Z' {
			b[i] = c + 'a' - 'A'
		}
	}
	return string(b)
}

// Match walks the library's output in lock step with the expected tokens.
// filter is the predicate that was installed (nil: none): inside raw HTML
// regions the output must then be exactly FilterRawRef of the source text.
func Match(out string, toks []Tok, filter func(string) bool) error {
	filtered := filter != nil
	pos := 0
	// Newline runs directly before or after a block-level tag are insignificant
	// inter-block white space (the library emits none today; a renderer that
	// put each block-level tag on its own line would still satisfy the
	// property). They are skipped, except between <pre> and </pre>.
	skipNL := func() {
		for pos < len(out) && out[pos] == '\n' {
			pos++
		}
	}
	inPre := 0
	for ti, t := range toks {
		what := fmt.Sprintf("token %d", ti)
		var err error
		isTag := func(k TokKind) bool { return k == TStart || k == TEnd || k == TPseudo }
		if isTag(t.Kind) && blockLevel[t.Name] && (inPre == 0 || t.Name == "pre") {
			skipNL()
		}
		switch t.Kind {
		case TText:
			pos, err = matchText(out, pos, t.Text, true, what+" (text)")
		case TPseudo:
			pos, err = matchText(out, pos, t.Text, false, what+" (filtered renderer tag)")
		case TRaw:
			raw := t.Text
			if filtered {
				raw = FilterRawRef(raw, filter)
			}
			if !strings.HasPrefix(out[pos:], raw) {
				return fmt.Errorf("%s (raw HTML %q, expected in the output as %q): output has %q", what, clip(t.Text), clip(raw), clip(out[min(pos, len(out)):]))
			}
			pos += len(raw)
		case TEnd:
			s := "</" + t.Name + ">"
			if !strings.HasPrefix(out[pos:], s) {
				return fmt.Errorf("%s: expecting %s at %d, output has %q", what, s, pos, clip(out[min(pos, len(out)):]))
			}
			pos += len(s)
		case TStart:
			s := "<" + t.Name
			if !strings.HasPrefix(out[pos:], s) {
				return fmt.Errorf("%s: expecting %s at %d, output has %q", what, s, pos, clip(out[min(pos, len(out)):]))
			}
			pos += len(s)
			for _, a := range t.Attrs {
				as := " " + a.Name + `="`
				if !strings.HasPrefix(out[pos:], as) {
					return fmt.Errorf("%s: expecting attribute %q of <%s> at %d, output has %q", what, a.Name, t.Name, pos, clip(out[min(pos, len(out)):]))
				}
				pos += len(as)
				pos, err = matchAttrVal(out, pos, a.Val, fmt.Sprintf("%s <%s %s>", what, t.Name, a.Name))
				if err != nil {
					return err
				}
				pos++ // closing quote
			}
			if pos >= len(out) || out[pos] != '>' {
				return fmt.Errorf("%s: expecting '>' closing <%s> at %d, output has %q", what, t.Name, pos, clip(out[min(pos, len(out)):]))
			}
			pos++
		}
		if err != nil {
			return err
		}
		if (t.Kind == TStart || (t.Kind == TPseudo && !strings.HasPrefix(t.Text, "</"))) && t.Name == "pre" {
			inPre++
		}
		if (t.Kind == TEnd || (t.Kind == TPseudo && strings.HasPrefix(t.Text, "</"))) && t.Name == "pre" && inPre > 0 {
			inPre--
		}
		if isTag(t.Kind) && blockLevel[t.Name] && inPre == 0 {
			// after a block-level tag, when the next expected token is a tag or the end
			if ti+1 >= len(toks) || isTag(toks[ti+1].Kind) || !strings.HasPrefix(toks[ti+1].Text, "\n") {
				skipNL()
			}
		}
	}
	if pos != len(out) {
		return fmt.Errorf("output has %d extra bytes after the last expected token: %q", len(out)-pos, clip(out[pos:]))
	}
	return nil
}

func min(a, b int) int {
	if a < b {
		return a
	}
	return b
}
