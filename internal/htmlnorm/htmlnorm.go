// Package htmlnorm holds the strict output tokenizer (O2) and the comparison
// form for model-based checks (O3).
//
// O2 recognises the language the renderer is supposed to emit when no raw HTML
// is involved:
//
//	( text | "<" name (" " attr "=" '"' value '"')* ">" | "</" name ">" )*
//
// with no other form of tag, no space before ">", exactly one space before each
// attribute. Anything else is a tokenisation error.
package htmlnorm

import (
	"fmt"
	"html"
	"sort"
	"strings"
)

type Kind int

const (
	Text Kind = iota
	Start
	End
	Raw
)

type Attr struct{ Name, Val string } // Val is the raw (still escaped) value

type Token struct {
	Kind  Kind
	Name  string // tag name for Start/End
	Attrs []Attr
	Text  string // raw text for Text and Raw tokens
	Pos   int
}

func isLower(c byte) bool { return 'a' <= c && c <= 'z' }
func isDigit(c byte) bool { return '0' <= c && c <= '9' }

// Tokenize splits renderer output into tokens under the strict grammar. raws is
// the document's own list of raw HTML strings (nil in safe mode): at a "<" the
// longest raw string that is a prefix of the remaining output becomes one Raw
// token; only then are renderer tags tried.
func Tokenize(out string, raws []string) ([]Token, error) {
	var toks []Token
	i := 0
	for i < len(out) {
		if out[i] != '<' {
			j := strings.IndexByte(out[i:], '<')
			if j < 0 {
				j = len(out) - i
			}
			toks = append(toks, Token{Kind: Text, Text: out[i : i+j], Pos: i})
			i += j
			continue
		}
		best := ""
		for _, r := range raws {
			if len(r) > len(best) && strings.HasPrefix(out[i:], r) {
				best = r
			}
		}
		if best != "" {
			toks = append(toks, Token{Kind: Raw, Text: best, Pos: i})
			i += len(best)
			continue
		}
		start := i
		i++
		if i < len(out) && out[i] == '/' {
			i++
			n := i
			for n < len(out) && (isLower(out[n]) || (n > i && isDigit(out[n]))) {
				n++
			}
			if n == i || n >= len(out) || out[n] != '>' {
				return toks, fmt.Errorf("malformed end tag at %d: %q", start, clip(out[start:]))
			}
			toks = append(toks, Token{Kind: End, Name: out[i:n], Pos: start})
			i = n + 1
			continue
		}
		n := i
		for n < len(out) && (isLower(out[n]) || (n > i && isDigit(out[n]))) {
			n++
		}
		if n == i {
			return toks, fmt.Errorf("'<' not followed by a tag name at %d: %q", start, clip(out[start:]))
		}
		tok := Token{Kind: Start, Name: out[i:n], Pos: start}
		i = n
		for {
			if i >= len(out) {
				return toks, fmt.Errorf("unterminated tag at %d: %q", start, clip(out[start:]))
			}
			if out[i] == '>' {
				i++
				break
			}
			if out[i] != ' ' {
				return toks, fmt.Errorf("unexpected %q in tag at %d: %q", out[i], start, clip(out[start:]))
			}
			i++
			a := i
			for i < len(out) && isLower(out[i]) {
				i++
			}
			if i == a || i+1 >= len(out) || out[i] != '=' || out[i+1] != '"' {
				return toks, fmt.Errorf("malformed attribute in tag at %d: %q", start, clip(out[start:]))
			}
			name := out[a:i]
			i += 2
			v := i
			for i < len(out) && out[i] != '"' {
				i++
			}
			if i >= len(out) {
				return toks, fmt.Errorf("unterminated attribute value in tag at %d: %q", start, clip(out[start:]))
			}
			tok.Attrs = append(tok.Attrs, Attr{name, out[v:i]})
			i++
		}
		toks = append(toks, tok)
	}
	return toks, nil
}

func clip(s string) string {
	if len(s) > 60 {
		return s[:60] + "..."
	}
	return s
}

var blockLevel = map[string]bool{"p": true, "h1": true, "h2": true, "h3": true, "h4": true, "h5": true, "h6": true,
	"ul": true, "ol": true, "li": true, "blockquote": true, "pre": true, "hr": true}

// PercentDecode decodes %XX escapes (malformed ones are kept).
func PercentDecode(s string) string {
	if !strings.Contains(s, "%") {
		return s
	}
	var sb strings.Builder
	for i := 0; i < len(s); i++ {
		if s[i] == '%' && i+2 < len(s) && isHexByte(s[i+1]) && isHexByte(s[i+2]) {
			sb.WriteByte(unhex(s[i+1])<<4 | unhex(s[i+2]))
			i += 2
			continue
		}
		sb.WriteByte(s[i])
	}
	return sb.String()
}

func isHexByte(c byte) bool {
	return '0' <= c && c <= '9' || 'a' <= c && c <= 'f' || 'A' <= c && c <= 'F'
}
func unhex(c byte) byte {
	switch {
	case c <= '9':
		return c - '0'
	case c >= 'a':
		return c - 'a' + 10
	default:
		return c - 'A' + 10
	}
}

// Normalize is O3: the comparison form "up to insignificant inter-block
// whitespace". Text and attribute values are entity-decoded per token,
// href/src percent-decoded, attributes sorted, adjacent text merged, and
// newline runs directly after or before a block-level tag removed, except that
// nothing between <pre> and </pre> is touched. The result has one token per
// line.
func Normalize(toks []Token) string {
	type nt struct {
		kind Kind
		s    string // canonical rendering for tags, decoded text for text
		name string
	}
	var out []nt
	inPre := 0
	for _, t := range toks {
		switch t.Kind {
		case Text:
			txt := html.UnescapeString(t.Text)
			if len(out) > 0 && out[len(out)-1].kind == Text {
				out[len(out)-1].s += txt
			} else {
				out = append(out, nt{kind: Text, s: txt})
			}
		case Raw:
			out = append(out, nt{kind: Raw, s: t.Text})
		case Start:
			attrs := append([]Attr(nil), t.Attrs...)
			sort.SliceStable(attrs, func(i, j int) bool { return attrs[i].Name < attrs[j].Name })
			var sb strings.Builder
			sb.WriteString("<" + t.Name)
			for _, a := range attrs {
				v := html.UnescapeString(a.Val)
				if a.Name == "href" || a.Name == "src" {
					v = PercentDecode(v)
				}
				fmt.Fprintf(&sb, " %s=%q", a.Name, v)
			}
			sb.WriteString(">")
			out = append(out, nt{kind: Start, s: sb.String(), name: t.Name})
		case End:
			out = append(out, nt{kind: End, s: "</" + t.Name + ">", name: t.Name})
		}
	}
	// strip newline runs around block-level tags, outside <pre>
	var res []nt
	for i, t := range out {
		if t.kind == Start && t.name == "pre" {
			inPre++
		}
		if t.kind == Text && inPre == 0 {
			s := t.s
			if i > 0 && (out[i-1].kind == Start || out[i-1].kind == End) && blockLevel[out[i-1].name] {
				s = strings.TrimLeft(s, "\n")
			}
			if i+1 < len(out) && (out[i+1].kind == Start || out[i+1].kind == End) && blockLevel[out[i+1].name] {
				s = strings.TrimRight(s, "\n")
			}
			if i == 0 {
				s = strings.TrimLeft(s, "\n")
			}
			if i == len(out)-1 {
				s = strings.TrimRight(s, "\n")
			}
			if s != "" {
				if len(res) > 0 && res[len(res)-1].kind == Text {
					res[len(res)-1].s += s
				} else {
					res = append(res, nt{kind: Text, s: s})
				}
			}
		} else {
			res = append(res, t)
		}
		if t.kind == End && t.name == "pre" && inPre > 0 {
			inPre--
		}
	}
	lines := make([]string, 0, len(res))
	for _, t := range res {
		switch t.kind {
		case Text:
			lines = append(lines, fmt.Sprintf("T:%q", t.s))
		case Raw:
			lines = append(lines, fmt.Sprintf("R:%q", t.s))
		default:
			lines = append(lines, t.s)
		}
	}
	return strings.Join(lines, "\n")
}

// NormalizeString tokenizes and normalizes; a tokenisation failure is returned.
func NormalizeString(out string, raws []string) (string, error) {
	toks, err := Tokenize(out, raws)
	if err != nil {
		return "", err
	}
	return Normalize(toks), nil
}
