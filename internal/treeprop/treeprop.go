// Package treeprop builds the plans of the four tree-invariant properties
// (C02 spans, C03 coverage, C05 grammar, C13 span shapes). They share one
// oracle pass (internal/tree) and the same generators; each property package
// selects its own predicates and non-triviality rule.
package treeprop

import (
	"bytes"
	"fmt"
	"testing"

	"pgregory.net/rapid"
	"verif/internal/gen"
	"verif/internal/harness"
	"verif/internal/tree"
	cm "zombiezen.com/go/commonmark"
)

// Nontrivial rules, one per property.
func nontrivial(prop string, blocks []*cm.RootBlock) (bool, []string) {
	var labels []string
	nt := false
	seen := map[string]bool{}
	add := func(l string) {
		if !seen[l] {
			seen[l] = true
			labels = append(labels, l)
		}
	}
	for _, b := range blocks {
		s := tree.Summarize(b)
		for k := range s.Blocks {
			add("block:" + k.String())
		}
		for k := range s.Inlines {
			add("inline:" + k.String())
		}
		if s.MultiLineInline > 0 {
			add("multi_line_inline")
		}
		if s.InContainerInline > 0 {
			add("multi_line_inline_in_container")
		}
		hasLinkish := s.Inlines[cm.LinkKind]+s.Inlines[cm.ImageKind]+s.Blocks[cm.LinkReferenceDefinitionKind] > 0
		switch prop {
		case "C02":
			if s.Depth >= 4 || s.MultiLineInline > 0 {
				nt = true
			}
		case "C03":
			if s.MultiLineInline > 0 || s.Containers > 0 || hasLinkish {
				nt = true
			}
		case "C05":
			if s.Blocks[cm.ListKind] > 0 || hasLinkish {
				nt = true
			}
		case "C13":
			constrained := s.Inlines[cm.EmphasisKind] + s.Inlines[cm.StrongKind] + s.Inlines[cm.CodeSpanKind] + s.Inlines[cm.LinkKind] + s.Inlines[cm.ImageKind] +
				s.Inlines[cm.AutolinkKind] + s.Inlines[cm.HTMLTagKind] + s.Inlines[cm.CharacterReferenceKind] + s.Inlines[cm.HardLineBreakKind] +
				s.Blocks[cm.ListMarkerKind] + s.Blocks[cm.ATXHeadingKind] + s.Blocks[cm.SetextHeadingKind] + s.Blocks[cm.FencedCodeBlockKind] + s.Blocks[cm.BlockQuoteKind]
			if constrained >= 3 && s.Containers > 0 {
				nt = true
			}
		}
	}
	return nt, labels
}

var rules = map[string]string{
	"C02": "non-trivial = some root block has tree depth >= 4 (root, container, leaf block, inline) or an inline container (emphasis, link, image, code span, HTML tag) whose span contains a line ending",
	"C03": "non-trivial = some root block has a multi-line inline construct, a container (quote/list), or a link, image or reference definition",
	"C05": "non-trivial = the tree contains a list, a reference definition, or a link/image",
	"C13": "non-trivial = some root block has >= 3 nodes of shape-constrained kinds and a container",
}

func check(prop string, blocks []*cm.RootBlock) error {
	for bi, b := range blocks {
		var vs []tree.Viol
		if prop == "C05" {
			vs = tree.CheckGrammar(b)
		} else {
			vs = tree.CheckTree(b)
		}
		for _, v := range vs {
			if v.Prop == prop {
				return fmt.Errorf("root block %d (source %q): %s", bi, clip(b.Source), v.Msg)
			}
		}
	}
	return nil
}

func clip(b []byte) []byte {
	if len(b) > 200 {
		return append(append([]byte{}, b[:200]...), "..."...)
	}
	return b
}

// Plan returns the harness plan of one of C02, C03, C05, C13.
func Plan(prop string, suppress harness.Suppressor) harness.Plan {
	propMemory := func(c harness.Case) harness.Result {
		blocks, _ := cm.Parse(append([]byte(nil), c.In...))
		nt, labels := nontrivial(prop, blocks)
		return harness.Result{Nontrivial: nt, Labels: append(labels, gen.Classify(c.In)...), Err: check(prop, blocks)}
	}
	propStream := func(c harness.Case) harness.Result {
		blocks, _, err := tree.StreamParse(gen.NewSchedReader(c.In, c.L["sched"], c.I["eofdata"] == 1, -1))
		if err != nil {
			return harness.Result{Err: fmt.Errorf("streaming parse: unexpected error %v", err)}
		}
		nt, labels := nontrivial(prop, blocks)
		return harness.Result{Nontrivial: nt, Labels: append(labels, gen.Classify(c.In)...), Err: check(prop, blocks)}
	}
	genMem := func(t *rapid.T) harness.Case { return harness.Case{In: gen.Doc().Draw(t, "in")} }
	genLines := func(t *rapid.T) harness.Case { return harness.Case{In: gen.Lines().Draw(t, "in")} }
	genStream := func(t *rapid.T) harness.Case {
		c := harness.Case{In: gen.Doc().Draw(t, "in")}
		c.SetL("sched", gen.Schedule(t, c.In))
		return c
	}
	genLong := func(t *rapid.T) harness.Case { return harness.Case{In: gen.Long(2000, 20000).Draw(t, "in")} }
	genLongDoc := func(t *rapid.T) harness.Case { return harness.Case{In: gen.LongDoc(20000, 70000).Draw(t, "in")} }
	genDeep := func(t *rapid.T) harness.Case { return harness.Case{In: gen.Deep().Draw(t, "in")} }
	base := "inputs from G1 byte soup (50%), G2 line-structured (30%), G3 mutated spec examples (20%); full block+inline parse; " + rules[prop] + "; distinct by FNV-64 of the input"
	plan := harness.Plan{Prop: prop, Suppress: suppress, Checks: []harness.Check{
		{Name: "memory", Quick: 80000, Thorough: 1500000, Gen: genMem, Prop: propMemory, Rule: "Parse: " + base},
		{Name: "memory_lines", Quick: 40000, Thorough: 800000, Gen: genLines, Prop: propMemory, Rule: "Parse on G2 only (multi-line constructs inside containers): " + rules[prop]},
		{Name: "stream", Quick: 30000, Thorough: 500000, Gen: genStream, Prop: propStream, Rule: "NewBlockParser+Extract+Rewrite under a G5 read schedule: " + base},
		{Name: "stream_documents", Quick: 40, Thorough: 600, Gen: genLongDoc, Prop: propStream, Rule: "documents of 20-70 KB with hundreds of root blocks through NewBlockParser (read as much at a time as the parser asks for), every block kept and examined after the whole input was read: " + rules[prop]},
		{Name: "deep", Quick: 3000, Thorough: 50000, Gen: genDeep, Prop: propMemory, Rule: "trees that are deep (up to 48 nested containers, 40 nested inlines) or wide (up to 150 siblings) by construction: " + rules[prop]},
		{Name: "long", Quick: 150, Thorough: 1500, Gen: genLong, Prop: propMemory, Rule: "G1 long mode 2-20 KB (deep nesting, long runs): " + rules[prop]},
		{Name: "edge_documents", Prop: propMemory, Rule: "enumerated: every special line (gen.LastLines) as the last line of every context (gen.LastContexts), with and without final line ending, LF / CRLF / CR; through Parse and through the streaming parser with one-byte reads: " + rules[prop]},
	}}
	plan.After = func(t *testing.T) {
		docs := gen.EdgeDocs()
		harness.EnumerateInputs(t, plan, "edge_documents", docs, nil, propMemory)
		if !t.Failed() {
			harness.EnumerateInputs(t, plan, "edge_documents", docs, func(i int, in []byte) harness.Case {
				c := harness.Case{In: in}
				ones := make([]int, len(in))
				for k := range ones {
					ones[k] = 1
				}
				c.SetL("sched", ones)
				return c
			}, propStream)
		}
	}
	return plan
}

var _ = bytes.Equal
