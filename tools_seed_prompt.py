#!/usr/bin/env python3
"""Prints the brief for a seeding sub-agent: the text of one property, its scratch worktree, the one-line
descriptions of the changes earlier rounds produced for that property (so that it looks elsewhere), and the
output contract. Nothing from /verif's checks, generators or oracles is included.
usage: tools_seed_prompt.py Cnn [--count=2] [--root=/tmp/wt]"""
import sys, json, os, glob
sys.path.insert(0, "/verif")
from tools_seed_summaries import summary
prop = sys.argv[1]; count = 2; root = "/tmp/wt"
for a in sys.argv[2:]:
    if a.startswith("--count="): count = int(a[8:])
    if a.startswith("--root="): root = a[7:]
p = None
for l in open("/verif/properties.jsonl"):
    q = json.loads(l)
    if q["id"] == prop: p = q
wt = "%s/%s" % (root, prop)
earlier = []
for d in sorted(glob.glob("/verif/seeded/%s-*" % prop), key=lambda s: int(s.rsplit("-", 1)[1])):
    sid = os.path.basename(d)
    if sid in summary:
        earlier.append(summary[sid])
    else:
        m = json.load(open(d + "/meta.json"))
        first = [l for l in m.get("needs_to_manifest", "").splitlines() if l.startswith("#")]
        earlier.append(first[0].lstrip("# ").split(": ", 1)[-1] if first else sid)
print("""You are helping to test a verification harness for the Go library zombiezen/go-commonmark (a CommonMark 0.30 parser with an HTML renderer and a Markdown re-formatter). Your job is to write %(count)d independent *seeded defects*: realistic changes to the library that break ONE stated property while the library still compiles and its existing test suite still passes. You do not see the harness; do not look for it and do not read anything under /verif. Work only inside your scratch git worktree of the library: %(wt)s (it is a worktree of /repo at its current HEAD; never modify /repo itself).

Environment: no network. Every shell call must start with
  export GOFLAGS=-mod=mod GOPROXY=off GOSUMDB=off GOTOOLCHAIN=local
Build with `go build ./... && go vet . ./format`, run the suite with `go test -count=1 . ./format ./internal/...` (cwd %(wt)s; takes about 10 s; that is the whole existing suite - a bare ./... would also try to build your seed/ directory). If go.sum gets rewritten, `git checkout -- go.sum`. Never use `git stash` (the stash is shared by all worktrees of the repository).

THE PROPERTY (id %(id)s): %(title)s

Statement: %(statement)s

Quantified over: %(quant)s

Why the existing tests cannot settle it: %(why)s

Code anchors: files %(files)s; mechanisms: %(mech)s; observable at: %(obs)s

WHAT TO PRODUCE. %(count)d separate changes (each applies alone to the clean HEAD), each of which:
 1. is a change a maintainer could plausibly make (a refactoring, an optimisation, a "tidy-up", a cache, a fast path, a boundary constant, a helper swapped for a near-equivalent one), small (typically 3-40 changed lines), in non-test files only, not guarded by any build tag;
 2. compiles, passes `go vet`, and passes the whole existing suite unedited (`go test -count=1 . ./format ./internal/...`);
 3. makes the library violate the property above for some inputs/usages - a real semantic violation of the statement as written, not a cosmetic difference that the statement allows;
 4. NEEDS SOMETHING SPECIFIC TO MANIFEST: an unusual input shape, a boundary count or length, a particular read schedule or API call sequence, a particular configuration, a crash/fault at a particular point, a particular goroutine interleaving, or two cooperating code sites that each look fine alone. Ordinary use (typical documents, the spec examples) must not expose it at once. Aim for subtle and deep: a defect that a quick random test with naive inputs would most likely miss.
 5. comes with a demonstration: a Go test file (package commonmark, or package format for the formatter) with one Test function named TestSeed%(id)sr11xN (N = 1..%(count)d) that FAILS with the change and PASSES on the clean tree, using only the public API (or unexported identifiers of the package if really needed), self-contained (no new dependencies).

The following ideas were already used for this property in earlier rounds. Do NOT repeat them or close variants of them; look in other code paths, other mechanisms named in the anchors, other API entry points, other configurations:
%(earlier)s

OUTPUT CONTRACT. Create the directory %(wt)s/seed and write, for N = 1..%(count)d:
  %(wt)s/seed/patchN.diff     `git diff` of the change against clean HEAD (non-test files only; must apply with `git apply` to a clean checkout)
  %(wt)s/seed/demoN_test.go   the demonstration test file
  %(wt)s/seed/notesN.md       what the change does, why it breaks the property, exactly what is needed to see it (be precise about the trigger), the commands you ran and their results
Before finishing, for each N verify from a clean tree (`git checkout -- . && git clean -fdq -e seed`): apply patchN.diff, build + vet, run the whole suite (must pass), copy demoN_test.go into the package directory and run it (must fail), revert the patch and run the demo again (must pass). Leave the worktree clean (only the untracked seed/ directory) when you are done. Your final message should list, for each N, one sentence on the change and one on the trigger, and confirm the verification results.""" % dict(
    count=count, wt=wt, id=p["id"], title=p["title"], statement=p["statement"], quant=p["quantifier"]["text"],
    why=p["why_tests_cant"], files=", ".join(p["anchors"]["files"]),
    mech="; ".join("%s (%s)" % (m["name"], m["where"]) for m in p["anchors"]["mechanism"]),
    obs=", ".join(p["anchors"]["observe_at"]),
    earlier="\n".join(" - " + e for e in earlier)))
